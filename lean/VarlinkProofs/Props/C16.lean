/-
  C16 — no data races in the library under its intended concurrent use.

  Model: lean/Varlink/Race.lean (threads, one mutex, spawn / join / channels; a race = two threads
  about to perform conflicting accesses).  Facts about the code: lean/Varlink/Extracted/Access.lean,
  regenerated from service.go, orgvarlinkservice.go and ctxio/conn.go by extract/access.go on every run.
-/
import Varlink.Race
import Varlink.Lifecycle
import VarlinkProofs.Lemmas.LifecycleInv
import VarlinkProofs.Lemmas.Race
import VarlinkProofs.Lemmas.RaceCtxio
import Varlink.Extracted.Code
import Varlink.ExpectedCode
namespace Varlink.C16
open Varlink Varlink.Race Varlink.Extracted

/-- the extracted access table with run-time lock states: accesses of `bind`, `parseAddress`, `setListener` happen
    under the mutex of `Bind` / `Listen` (see `Race.effective`, `helpers_run_under_callers_lock`) -/
def serviceTable : List Access := effective serviceAccesses mutexFns

/-! ### 1. the discipline excludes races (any program, any number of threads) -/

/-- **lockset soundness**: if every pair of conflicting accesses of two threads is either under the
    mutex on both sides or ordered by a spawn / join / channel edge, no reachable state has two threads
    about to perform conflicting accesses. -/
theorem lockset_sound {F : Type} [DecidableEq F] (P : Prog F) (hwf : WF P) (hd : Disciplined P)
    (s : St F) (hr : Reach P s) : ¬ Racy s := by
  intro ⟨t, u, a, b, ha, hb, htu, hpt, hpu, hc⟩
  have hi := inv_reach hr
  obtain ⟨pt, hmt, pu, hmu, e1, e2, e3, e4, hnl, hno1, hno2⟩ := racy_pair_undisciplined hwf hr htu hpt hpu
  have := hd t (mem_tids_of_poised hi hpt) u (mem_tids_of_poised hi hpu) htu pt hmt pu hmu (by rw [e1, e3]; exact hc)
  rcases this with ⟨h1, h2⟩ | h | h
  · exact hnl ⟨e2 ▸ h1, e4 ▸ h2⟩
  · exact hno1 h
  · exact hno2 h

/-- the mutex alone: two threads are never inside critical sections at the same time -/
theorem mutual_exclusion {F : Type} [DecidableEq F] (P : Prog F) (s : St F) (hr : Reach P s) (t u : Tid)
    (ht : (s.th t).cs ≠ none) (hu : (s.th u).cs ≠ none) : t = u := by
  have hi := inv_reach hr
  cases h1 : (s.th t).cs with
  | none => exact absurd h1 ht
  | some l1 =>
    cases h2 : (s.th u).cs with
    | none => exact absurd h2 hu
    | some l2 =>
      have a := (hi.cs_owner t l1 h1).2.1
      have b := (hi.cs_owner u l2 h2).2.1
      rw [a] at b
      exact Option.some.inj b

/-- non-vacuity: the model does have races — two threads writing one field without the mutex reach a
    racy state (here: the initial one) -/
example : ∃ s, Reach ([[.acc 0 .write], [.acc 0 .write]] : Prog Nat) s ∧ Racy s :=
  ⟨_, .init, 0, 1, (0, .write), (0, .write), false, false, by decide, by decide, by decide, by decide⟩

/-- … and the discipline rejects that program, while it accepts the same accesses under the mutex and
    the same accesses ordered by a channel -/
example : ¬ Disciplined ([[.acc 0 .write], [.acc 0 .write]] : Prog Nat) := by decide
example : Disciplined ([[.locked [(0, .write)]], [.locked [(0, .write)]]] : Prog Nat) := by decide
example : Disciplined ([[.spawn 1, .recv 7, .acc 0 .write], [.acc 0 .write, .send 7]] : Prog Nat) ∧
          WF ([[.spawn 1, .recv 7, .acc 0 .write], [.acc 0 .write, .send 7]] : Prog Nat) := by decide
/-- without the receive the same program is rejected -/
example : ¬ Disciplined ([[.spawn 1, .acc 0 .write], [.acc 0 .write, .send 7]] : Prog Nat) := by decide

/-! ### 2. varlink.Service: the regenerated access table obeys the discipline -/

/-- **the access table of service.go / orgvarlinkservice.go is disciplined**: every pair of conflicting
    accesses of functions that may run in different goroutines (see `mayOverlap`) is under the mutex on
    both sides, or is the pair "RegisterInterface (under the mutex) / connection handler reading an
    interface table" that section 3 covers.  Fails to build as soon as an unprotected access appears. -/
theorem service_disciplined : TableDisciplined serviceTable := by decide +kernel

/-- which functions run under their callers' mutex (since fix a1069ea: the helpers of `Bind`) -/
theorem helpers_run_under_callers_lock :
    Fn.all.filter (underCallersLock serviceAccesses mutexFns Fn.all.length) = [.parseAddress, .setListener, .bind] := by
  decide +kernel

/-- the walk found a definite lock state everywhere, the mutex is never held across a `go` and is held across a
    call of another Service method only when that method runs under its callers' mutex and never locks itself,
    and `running`, `conncounter`, `listener`, `protocol`, `address` are written only under the mutex -/
theorem service_lock_states :
    serviceTable.all (fun a => a.lock != .unknown) = true ∧
    callsUnderLockOK serviceAccesses mutexFns = true ∧
    writesHeld serviceTable .running = true ∧
    writesHeld serviceTable .conncounter = true ∧
    writesHeld serviceTable .listener = true ∧
    writesHeld serviceTable .protocol = true ∧
    writesHeld serviceTable .address = true := by decide +kernel

/-- the roles used by `mayOverlap`, computed from the extracted call edges -/
theorem service_roles :
    servingFns serviceTable = [.Bind, .Listen, .DoListen, .bind, .isRunning, .refreshTimeout, .teardown, .parseAddress, .setListener] ∧
    handlerFns serviceTable = [.handleConnection, .HandleMessage, .orgvarlinkserviceDispatch, .getInfo, .getInterfaceDescription] ∧
    apiFns serviceTable = [.Shutdown, .GetListener, .RegisterInterface] := by decide +kernel

/-- **the lock discipline of the table carries over to every intended use**: in every reachable state of
    every such program (any number of threads), two threads about to perform conflicting accesses can
    only be RegisterInterface inside its critical section and a connection handler reading one of the
    interface tables. -/
theorem service_races_only_on_guarded_tables (tbl : List Access) (htd : TableDisciplined tbl)
    (P : Prog SField) (fns : Tid → List Fn) (hu : IntendedUse tbl P fns) (hwf : WF P)
    (s : St SField) (hr : Reach P s) (t u : Tid) (htu : t ≠ u) (a b : Acc SField) (ha hb : Bool)
    (hpt : poised (s.th t) = some (a, ha)) (hpu : poised (s.th u) = some (b, hb))
    (hc : conflict a b = true) :
    ∃ A ∈ tbl, ∃ B ∈ tbl, accOf A = some a ∧ accOf B = some b ∧
      (counterGuarded tbl A B = true ∨ counterGuarded tbl B A = true) := by
  obtain ⟨pt, hmt, pu, hmu, e1, e2, e3, e4, hnl, _, _⟩ := racy_pair_undisciplined hwf hr htu hpt hpu
  obtain ⟨x, hx, hxs⟩ := point_stmt hmt
  obtain ⟨y, hy, hys⟩ := point_stmt hmu
  obtain ⟨f, hf, A, hA, hAf, hAa, hAl⟩ := stmt_access (hu.stmts t x hx) hxs
  obtain ⟨g, hg, B, hB, hBf, hBa, hBl⟩ := stmt_access (hu.stmts u y hy) hys
  refine ⟨A, hA, B, hB, e1 ▸ hAa, e3 ▸ hBa, ?_⟩
  have hok := htd A hA B hB
  have hov := hu.overlap t u htu f hf g hg
  have hconf : accConflict A B = true := by simp [accConflict, hAa, hBa, e1, e3, hc]
  simp only [pairOK, hconf, hAf, hBf, hov, Bool.not_true, Bool.false_or, Bool.or_eq_true, Bool.and_eq_true,
    decide_eq_true_eq] at hok
  rcases hok with (⟨h1, h2⟩ | h) | h
  · exact absurd ⟨e2 ▸ (hAl.mp h1), e4 ▸ (hBl.mp h2)⟩ hnl
  · exact Or.inl h
  · exact Or.inr h

/-- non-vacuity: Shutdown ∥ the accept loop's isRunning ∥ RegisterInterface ∥ a handler is an intended use -/
example : IntendedUse serviceTable
    [fnStmts serviceTable .Shutdown, fnStmts serviceTable .isRunning,
     fnStmts serviceTable .RegisterInterface, fnStmts serviceTable .HandleMessage]
    (fun t => [[Fn.Shutdown], [.isRunning], [.RegisterInterface], [.HandleMessage]].getD t []) := by
  constructor
  · intro t x hx
    right
    match t with
    | 0 => exact ⟨.Shutdown, by simp, by simpa [code] using hx⟩
    | 1 => exact ⟨.isRunning, by simp, by simpa [code] using hx⟩
    | 2 => exact ⟨.RegisterInterface, by simp, by simpa [code] using hx⟩
    | 3 => exact ⟨.HandleMessage, by simp, by simpa [code] using hx⟩
    | n + 4 => simp [code] at hx
  · intro t u _ f hf g hg
    have hf' : f ∈ [Fn.Shutdown, .isRunning, .RegisterInterface, .HandleMessage] := by
      match t with
      | 0 | 1 | 2 | 3 => simp at hf; simp [hf]
      | n + 4 => simp at hf
    have hg' : g ∈ [Fn.Shutdown, .isRunning, .RegisterInterface, .HandleMessage] := by
      match u with
      | 0 | 1 | 2 | 3 => simp at hg; simp [hg]
      | n + 4 => simp at hg
    have : ∀ f ∈ [Fn.Shutdown, .isRunning, .RegisterInterface, .HandleMessage],
        ∀ g ∈ [Fn.Shutdown, .isRunning, .RegisterInterface, .HandleMessage],
          (f = .isRunning ∧ g = .isRunning) ∨ mayOverlap serviceTable f g = true := by decide +kernel
    rcases this f hf' g hg' with ⟨e1, e2⟩ | h
    · -- both threads would be the serving call: excluded, the lists of two different threads differ
      subst e1; subst e2
      match t, u with
      | 1, 1 => contradiction
      | 0, _ | 2, _ | 3, _ => simp at hf
      | 1, 0 | 1, 2 | 1, 3 => simp at hg
      | 1, n + 4 => simp at hg
      | n + 4, _ => simp at hf
    · exact h

/-! ### 3. the interface tables are guarded by the connection counter -/

open Tables in
/-- invariant of the counter system: the counter counts exactly the handlers that exist or are about to
    be spawned, and it is zero while a RegisterInterface call writes -/
theorem counter_invariant (s : S) (h : Reach true s) :
    s.cc = s.serving + s.leaving + pending s ∧ (s.regWriting = true → s.cc = 0) := by
  induction h with
  | init => simp [Tables.init, pending]
  | @step s s' _ st ih =>
    obtain ⟨i1, i2⟩ := ih
    cases st with
    | listenStart h1 h2 => simp_all [pending]
    | accept h1 => simp_all [pending]
    | count h1 h2 => simp_all [pending]
    | spawn h1 => simp_all [pending]; omega
    | loopExit h1 h2 => simp_all [pending]
    | drained h1 h2 => simp_all [pending]
    | shutdown h1 => simp_all [pending]
    | handlerLeave h1 =>
      simp only [pending] at i1 ⊢
      refine ⟨?_, i2⟩
      show s.cc = s.serving - 1 + (s.leaving + 1) + _
      omega
    | handlerDec h1 h2 =>
      simp only [pending] at i1 ⊢
      refine ⟨?_, by simp [h2]⟩
      show s.cc - 1 = s.serving + (s.leaving - 1) + _
      omega
    | regEnter h1 h2 h3 => exact ⟨i1, fun _ => h3 rfl⟩
    | regExit h1 => exact ⟨i1, by simp⟩

open Tables in
/-- **tables guarded by the counter**: handlers exist only while `conncounter > 0`, the counter changes
    only under the mutex, RegisterInterface writes only after it saw `running = false ∧ conncounter = 0`
    under the mutex — hence no reachable state has RegisterInterface writing a table while a handler may
    read it; a handler spawned later passes through the accept loop's `conncounter++` critical section,
    which the mutex orders after the write. -/
theorem tables_guarded_by_counter (s : S) (h : Reach true s) : ¬ Tables.Racy s := by
  intro ⟨h1, h2⟩
  obtain ⟨i1, i2⟩ := counter_invariant s h
  have := i2 h1
  omega

open Tables in
/-- the guard is necessary (the defect repaired in ccd9725): without the counter check, RegisterInterface
    is admitted after Shutdown while a handler is still serving -/
theorem without_counter_guard_racy : ∃ s, Reach false s ∧ Tables.Racy s := by
  refine ⟨{ running := false, cc := 1, lpc := .loop, serving := 1, leaving := 0, regWriting := true }, ?_, by simp [Tables.Racy]⟩
  have r0 : Reach false Tables.init := .init
  have r1 := Reach.step r0 (Step.listenStart _ rfl rfl)
  have r2 := Reach.step r1 (Step.accept _ rfl)
  have r3 := Reach.step r2 (Step.count _ rfl rfl)
  have r4 := Reach.step r3 (Step.spawn _ rfl)
  have r5 := Reach.step r4 (Step.shutdown _ rfl)
  have r6 := Reach.step r5 (Step.regEnter _ rfl rfl (by simp))
  exact r6

open Tables in
/-- non-vacuity of the guarded system: RegisterInterface does get to write (before serving starts), and
    handlers do get to serve -/
example : ∃ s, Reach true s ∧ s.regWriting = true := ⟨_, .step .init (.regEnter _ rfl rfl (fun _ => rfl)), rfl⟩
open Tables in
example : ∃ s, Reach true s ∧ s.serving = 1 :=
  ⟨_, .step (.step (.step (.step .init (.listenStart _ rfl rfl)) (.accept _ rfl)) (.count _ rfl rfl)) (.spawn _ rfl), rfl⟩

/-- **the counter system is the code's**: facts of the regenerated table that the transitions rely on —
    RegisterInterface checks `s.running || s.conncounter > 0` under the mutex before its table writes and
    keeps the mutex until it returns; every `go s.handleConnection` directly follows `s.conncounter++`
    under the mutex; the handler's decrement is its last access (deferred), after every call that reads a
    table; handlers only read the tables. -/
theorem counter_system_matches_code :
    ("s.running || s.conncounter > 0", LockSt.held) ∈ registerInterfaceGuards ∧
    registerChecksFirst (eventsOf serviceTable .RegisterInterface) = true ∧
    Fn.RegisterInterface ∈ deferUnlockFns ∧
    incBeforeSpawn (eventsOf serviceTable .Listen) = true ∧ hasSpawn (eventsOf serviceTable .Listen) = true ∧
    incBeforeSpawn (eventsOf serviceTable .DoListen) = true ∧ hasSpawn (eventsOf serviceTable .DoListen) = true ∧
    (Fn.all.all fun f => f = .Listen || f = .DoListen || !hasSpawn (eventsOf serviceTable f)) = true ∧
    decrementLast (eventsOf serviceTable .handleConnection) = true ∧
    (serviceTable.all fun a => !(handlerFns serviceTable).contains a.fn ||
        match a.ev with | .write f => !isTable f | _ => true) = true := by decide +kernel

/-! ### 3b. the same guard in the lifecycle transition system of C14 (one model, not two)

  The counter system above abstracts the accept loop to five program counters. The lifecycle transition system of C14
  (lean/Varlink/Lifecycle.lean: any number of serving calls and connections, every interleaving, faults included) has
  the real accounting, and `accounted_once` says the counter is exactly the number of connections from `counted` to
  `closed`. Hence the composition "lock discipline + counter guard" needs no separate argument: -/

/-- **A registration that is admitted finds no handler alive**: in every reachable state of the lifecycle transition
    system in which `RegisterInterface` is not refused (`running = false` and `conncounter ≤ 0`, read under the mutex),
    no connection is in a phase in which its handler goroutine exists and can read an interface table (`reading`,
    `dispatching`, `closing`, `closed` — nor already counted and about to be handed to one). So the unlocked table reads
    of handlers never overlap the locked table writes of a registration. -/
theorem register_admitted_no_live_handler {w : Life.World} (h : Life.Reachable w)
    (hr : Life.registerRefused w = false) :
    ∀ (i : Nat) (x : Life.Conn), w.conns[i]? = some x → Life.inCounter x.phase = false := by
  intro i x hi
  have hc : w.counter = Life.cnt Life.cntd w.conns := (Life.inv_reachable h).counterOk
  simp only [Life.registerRefused, Bool.or_eq_false_iff, decide_eq_false_iff_not] at hr
  have hle : w.counter ≤ 0 := by omega
  have hnn : (0 : Int) ≤ Life.cnt Life.cntd w.conns := by unfold Life.cnt; exact Int.natCast_nonneg _
  have hz : Life.cnt Life.cntd w.conns = 0 := by omega
  have hcp : w.conns.countP Life.cntd = 0 := by
    unfold Life.cnt at hz; exact_mod_cast hz
  have hmem : x ∈ w.conns := List.mem_of_getElem? hi
  have := List.countP_eq_zero.mp hcp x hmem
  simpa [Life.cntd] using this

/-- non-vacuity: a reachable lifecycle state after Shutdown with a connection still being served — the registration
    is refused there although `running` is already false (the counter guard is what refuses it) -/
example : ∃ w, Life.Reachable w ∧ w.running = false ∧ Life.registerRefused w = true :=
  ⟨_, Life.reach_of_run [.spawn .bind false (some 0), .call 0, .spawn .doListen false none, .call 1, .call 1,
      .clientConnect 0, .call 1, .call 1, .call 1, .shutdown] rfl, by decide, by decide⟩

/-! ### 4. ctxio: the helper goroutine is joined before every return -/

/-- **every return of Read / ReadBytes / Write after the helper was started is preceded by a receive
    from the helper's channel** (both select arms of all three operations, from the regenerated skeleton),
    the only exception being the error return when `SetDeadline(aLongTimeAgo)` itself fails; each
    operation starts one helper, which sends exactly once, on a channel with room for the result. -/
theorem ctxio_joined :
    ∀ op ∈ ctxioOps, armJoined false op.cancelArm = true ∧ armJoined false op.doneArm = true ∧
      skeletonShape op = true := by decide +kernel

/-- the exception is real: the `if err := SetDeadline(aLongTimeAgo); err != nil { return }` in the cancel
    arm returns without the receive (unreachable on connections whose SetDeadline cannot fail while open) -/
theorem ctxio_deadline_error_exit_is_unjoined :
    ∀ op ∈ ctxioOps, armJoinedStrict false op.cancelArm = false ∧ armJoinedStrict false op.doneArm = true := by
  decide +kernel

def allOpArms : List (CxOp × Arm) :=
  ctxioOps.flatMap fun op => [(op, Arm.cancelled), (op, Arm.completed)]

/-- the programs of two successive operations (any of Read / ReadBytes / Write, each cancelled or
    completed: 36 combinations) by one goroutine, with their helper goroutines, obey the discipline … -/
theorem ctxio_programs_disciplined :
    ∀ o1 ∈ allOpArms, ∀ o2 ∈ allOpArms,
      WF (cxProgram [o1, o2]) ∧ Disciplined (cxProgram [o1, o2]) := by decide +kernel

/-- … **hence the buffer and bufio.Reader accesses of an operation's helper never race with the caller's
    accesses before and after the call, nor with the helper of the following operation, cancelled or
    not** -/
theorem ctxio_successive_operations_race_free (o1 o2 : CxOp × Arm)
    (h1 : o1 ∈ allOpArms) (h2 : o2 ∈ allOpArms)
    (s : St CxObj) (hr : Reach (cxProgram [o1, o2]) s) : ¬ Racy s :=
  lockset_sound _ (ctxio_programs_disciplined o1 h1 o2 h2).1 (ctxio_programs_disciplined o1 h1 o2 h2).2 s hr

/-- the same for three operations in a row (the helper of the first against the helper of the third is
    ordered through the caller: receive, then spawn); checked for each operation kind repeated thrice.
    Partial (kernel evaluation of one fixed length); the statement for sequences of arbitrary length is
    `ctxio_any_operations_race_free` below. -/
theorem ctxio_three_operations_race_free_partial (o : CxOp × Arm) (h : o ∈ allOpArms)
    (s : St CxObj) (hr : Reach (cxProgram [o, o, o]) s) : ¬ Racy s := by
  have : ∀ o ∈ allOpArms, WF (cxProgram [o, o, o]) ∧ Disciplined (cxProgram [o, o, o]) := by decide +kernel
  exact lockset_sound _ (this o h).1 (this o h).2 s hr

/-! #### sequences of arbitrary length -/

/-- **the shape of the six (operation, select arm) pairs**, from the regenerated skeletons: the caller's steps
    up to the select end with the one `go`, no channel operation before it; the arm contains the receive from
    the helper's channel and uses, before that receive, no object the helper uses; the helper ends with its
    one send (`Race.CxShape`).  This is the only fact about the extracted code the unbounded theorem uses. -/
theorem ctxio_operation_shapes : ∀ o ∈ allOpArms, CxShape o := by decide +kernel

/-- **any number of successive operations**: the program of a goroutine performing any sequence of
    Read / ReadBytes / Write operations, each cancelled or completed, with all their helper goroutines, is well
    formed and obeys the discipline.  (Caller against helper i: ordered by the later spawn or by the receive on
    channel i; helper i against a later helper j: j was spawned after the caller received on channel i.) -/
theorem ctxio_any_operations_disciplined (ops : List (CxOp × Arm)) (h : ∀ o ∈ ops, o ∈ allOpArms) :
    WF (cxProgram ops) ∧ Disciplined (cxProgram ops) :=
  cxProgram_disciplined ops fun o ho => ctxio_operation_shapes o (h o ho)

/-- … **hence no reachable state of such a program, of whatever length, has a data race**: the buffer and
    bufio.Reader accesses of every helper never race with the caller's accesses before, during and after any
    of the calls, nor with the helper of any other operation of the sequence. -/
theorem ctxio_any_operations_race_free (ops : List (CxOp × Arm)) (h : ∀ o ∈ ops, o ∈ allOpArms)
    (s : St CxObj) (hr : Reach (cxProgram ops) s) : ¬ Racy s :=
  lockset_sound _ (ctxio_any_operations_disciplined ops h).1 (ctxio_any_operations_disciplined ops h).2 s hr

/-- five operations mixing all three kinds and both arms -/
def fiveOps : List (CxOp × Arm) :=
  [(ctxioReadOp, .cancelled), (ctxioReadBytesOp, .completed), (ctxioWriteOp, .cancelled),
   (ctxioReadOp, .completed), (ctxioWriteOp, .completed)]

/-- non-vacuity: `fiveOps` satisfies the hypothesis … -/
example : ∀ o ∈ fiveOps, o ∈ allOpArms := by
  intro o ho
  simp only [fiveOps, List.mem_cons, List.not_mem_nil, or_false] at ho
  rcases ho with rfl | rfl | rfl | rfl | rfl <;> simp [allOpArms, ctxioOps]

/-- … and its program has a reachable state, after the first two operations have run to completion (their
    helpers finished), in which the helper of the third operation (thread 3) has done its buffer access and has
    its send still ahead, concurrently with its caller, which is started, past the spawn and waiting at the
    receive (schedule: thread ids in the order in which they step) -/
example : ∃ s, Reach (cxProgram fiveOps) s ∧
    (s.th 1).finished ∧ (s.th 2).finished ∧
    (s.th 0).started = true ∧ (s.th 3).started = true ∧
    (s.th 3).done = [.acc .buf .write] ∧ (s.th 3).rem = [.send 2] ∧
    (s.th 0).rem.head? = some (.recv 2) ∧ (s.th 4).started = false :=
  ⟨_, run_reach (cxProgram fiveOps) [0, 0, 1, 1, 1, 0, 0, 0,  0, 0, 2, 2, 2, 0, 0, 0,  0, 0, 3] (by decide +kernel),
    by unfold TSt.finished; decide +kernel, by unfold TSt.finished; decide +kernel,
    by decide +kernel, by decide +kernel, by decide +kernel, by decide +kernel, by decide +kernel,
    by decide +kernel⟩

def exampleProgram : Prog CxObj := cxProgram [(ctxioReadOp, .cancelled), (ctxioReadBytesOp, .completed)]

/-- non-vacuity: in the program of a cancelled Read followed by a ReadBytes the helper of the first does
    get to run concurrently with its caller (a reachable state with both started and unfinished) -/
example : ∃ s, Reach exampleProgram s ∧
    (s.th 0).started = true ∧ (s.th 1).started = true ∧ (s.th 1).rem ≠ [] ∧ (s.th 0).rem ≠ [] := by
  refine ⟨_, .step (.step .init (Step.acc (t := 0) .buf .write (code exampleProgram 0).tail ?_ ?_ ?_))
    (Step.spawn (t := 0) 1 (code exampleProgram 0).tail.tail ?_ ?_ ?_ ?_), ?_⟩ <;> decide +kernel

/-- the join is what makes it so: the same operation without the receive in its cancel arm is rejected -/
theorem ctxio_without_join_undisciplined :
    ¬ Disciplined (cxProgram [({ ctxioReadOp with cancelArm := ctxioReadOp.cancelArm.filter (· ≠ .recv) }, .cancelled),
                              (ctxioReadOp, .completed)]) := by decide +kernel

/-- **Tie to the source**: the declarations of /repo that this property's model transliterates
    (`Extracted.codeNames_C16`) have, in the current working tree, exactly the fingerprints of the code the
    model was validated against. Any change to them breaks this obligation; the check then searches the
    correspondence streams for an input on which the changed code violates the property. -/
theorem modelled_code_unchanged : Varlink.Extracted.code_C16 = Varlink.ExpectedCode.code_C16 := by decide

/-- no declaration (function, method, type, constant, variable) has been added to or removed from the
    fingerprinted source files since the models were validated: a new method or `init` can change behaviour
    without touching the text of any existing declaration -/
theorem declarations_known : Varlink.Extracted.declarationSet = Varlink.ExpectedCode.declarationSet := by decide

end Varlink.C16
