/-
  C02 — framing: one JSON object + one NUL, independent of segmentation.
  Models: `wireReply`/`replyObj` (lean/Varlink/Service.lean, what `sendMessage` writes), `callObj`
  (lean/Varlink/Client.lean, what `Send` writes), the JSON model (lean/Varlink/Json.lean) and the
  bufio/network model (lean/Varlink/Frame.lean: `readBytes`, `readAll`, `splitOnNul`).
-/
import Varlink.Client
import Varlink.JsonWF
import VarlinkProofs.Lemmas.Frame
import VarlinkProofs.Lemmas.Json
import VarlinkProofs.Lemmas.WireWf
import Varlink.Extracted.Code
import Varlink.ExpectedCode
namespace Varlink.C02
open Varlink

/-- "one syntactically valid JSON object followed by exactly one NUL byte with no NUL inside" -/
def OneObjectOneNul (bs : Bytes) : Prop :=
  ∃ body ms, bs = body ++ [0] ∧ (0 : UInt8) ∉ body ∧ parseDoc body = some (.obj ms)

/-- **Every message the service writes** is one JSON object + one NUL, for any reply parameters — any
    strings (NUL, quotes, controls, non-BMP, even invalid UTF-8), any nesting below the decoder's limit,
    any size. (Hypothesis: number literals are JSON numbers, which `json.Marshal` guarantees.) -/
theorem service_message_wellformed (f : ReplyFrame) (h : optNumsOk f.params = true)
    (hd : optDepth f.params < maxDepth) : OneObjectOneNul (wireReply f) := by
  obtain ⟨ms, hms⟩ := replyObj_is_obj f
  have hn := replyObj_numsOk f h
  have hdep : (replyObj f).depth ≤ maxDepth := by rw [replyObj_depth]; omega
  refine ⟨render (replyObj f), ms.sanitize, rfl, render_no_nul_of_numsOk _ hn, ?_⟩
  rw [hms] at hn hdep ⊢
  exact (render_obj_is_object_sanitize ms hn hdep).2

/-- **Every message the client writes** is one JSON object + one NUL, for any call parameters. -/
theorem client_message_wellformed (m : Bytes) (p : Option JVal) (more oneway upgrade : Bool)
    (h : optNumsOk p = true) (hd : optDepth p < maxDepth) :
    OneObjectOneNul (render (callObj m p more oneway upgrade) ++ [0]) := by
  obtain ⟨ms, hms⟩ := callObj_is_obj m p more oneway upgrade
  have hn := callObj_numsOk m p more oneway upgrade h
  have hdep : (callObj m p more oneway upgrade).depth ≤ maxDepth := by rw [callObj_depth]; omega
  refine ⟨_, ms.sanitize, rfl, render_no_nul_of_numsOk _ hn, ?_⟩
  rw [hms] at hn hdep ⊢
  exact (render_obj_is_object_sanitize ms hn hdep).2

/-- no raw control byte at all ever appears inside a message (stronger than "no NUL") -/
theorem service_message_no_control_bytes (f : ReplyFrame) (h : optNumsOk f.params = true) :
    ∀ x ∈ render (replyObj f), 32 ≤ x :=
  render_ge _ (replyObj_numsOk f h)

/-! ### the receive side: frames depend on the bytes only -/

theorem splitOnNul_of_cut_none (s : Bytes) (h : cutAt 0 s = none) : splitOnNul s = ([], s) := by
  induction s with
  | nil => rfl
  | cons c cs ih =>
    simp only [cutAt] at h
    by_cases hc : c = 0
    · simp [hc] at h
    · simp only [hc, if_false, Option.map_eq_none_iff] at h
      simp [splitOnNul, ih h, hc]

theorem splitOnNul_of_cut_some (s pre post : Bytes) (h : cutAt 0 s = some (pre, post)) :
    splitOnNul s = (pre :: (splitOnNul post).1, (splitOnNul post).2) := by
  induction s generalizing pre with
  | nil => simp [cutAt] at h
  | cons c cs ih =>
    simp only [cutAt] at h
    by_cases hc : c = 0
    · simp [hc] at h
      obtain ⟨rfl, rfl⟩ := h
      simp [splitOnNul, hc]
    · simp only [hc, if_false] at h
      cases hcs : cutAt 0 cs with
      | none => simp [hcs] at h
      | some pq =>
        obtain ⟨p, q⟩ := pq
        simp [hcs] at h
        obtain ⟨rfl, rfl⟩ := h
        simp [splitOnNul, ih p hcs, hc]

/-- number of NUL bytes = number of complete frames -/
def nulCount : Bytes → Nat
  | [] => 0
  | c :: cs => (if c = 0 then 1 else 0) + nulCount cs

theorem nulCount_cut (s pre post : Bytes) (h : cutAt 0 s = some (pre, post)) :
    nulCount s = nulCount post + 1 := by
  obtain ⟨hs, hpre⟩ := cutAt_spec h
  subst hs
  clear h
  induction pre with
  | nil => simp [nulCount]; omega
  | cons x xs ih =>
    simp only [List.mem_cons, not_or] at hpre
    have hx : ¬ x = 0 := fun e => hpre.1 e.symm
    simp [nulCount, hx, ih hpre.2]

/-- **Independence of segmentation**: reading frame after frame from *any* segmentation of a byte
    stream (one byte at a time, many messages in one segment, messages larger than the reader's
    buffer, any buffer capacity, any bytes already buffered) yields exactly the NUL-separated pieces of
    the stream, and then the unterminated tail. -/
theorem frames_independent_of_segmentation (cap : Nat) (hcap : cap > 0) :
    ∀ (n : Nat) (b : Bufio) (net : Net), n > nulCount (pending b net) →
      readAll cap n b net = splitOnNul (pending b net) := by
  intro n
  induction n with
  | zero => intro b net h; omega
  | succ n ih =>
    intro b net hn
    simp only [readAll]
    have spec := readBytes_spec cap hcap 0 (readFuel b net) [] b net (readFuel_enough b net)
    cases hc : cutAt 0 (pending b net) with
    | none =>
      rw [spec.2 hc, splitOnNul_of_cut_none _ hc]
      simp
    | some pq =>
      obtain ⟨pre, post⟩ := pq
      obtain ⟨b', net', h1, h2⟩ := spec.1 pre post hc
      rw [h1]
      have hcount := nulCount_cut _ _ _ hc
      have := ih b' net' (by rw [h2]; omega)
      simp only [List.nil_append]
      rw [this, h2, splitOnNul_of_cut_some _ _ _ hc]
      simp

/-- in particular two segmentations of the same stream give the same messages: service and client,
    which share this reader, recover the same sequence -/
theorem same_stream_same_frames (cap₁ cap₂ : Nat) (h₁ : cap₁ > 0) (h₂ : cap₂ > 0) (net₁ net₂ : Net)
    (h : net₁.flatten = net₂.flatten) (n : Nat) (hn : n > nulCount net₁.flatten) :
    readAll cap₁ n {} net₁ = readAll cap₂ n {} net₂ := by
  rw [frames_independent_of_segmentation cap₁ h₁ n {} net₁ (by simpa [pending] using hn),
      frames_independent_of_segmentation cap₂ h₂ n {} net₂ (by simpa [pending, ← h] using hn)]
  simp [pending, h]

/-- a message written by either side is read back as exactly one frame: its JSON text -/
theorem written_message_is_one_frame (body : Bytes) (h : (0 : UInt8) ∉ body) :
    splitOnNul (body ++ [0]) = ([body], []) := by
  have := cutAt_of_split 0 body [] h
  rw [splitOnNul_of_cut_some _ _ _ this]
  simp [splitOnNul]

/-! ### non-vacuity -/

example : optNumsOk (some (.obj (.cons (str "s") (.str [0, 34, 0xF0, 0x9F, 0x98, 0x80, 10]) .nil))) = true ∧
    optDepth (some (.obj (.cons (str "s") (.str [0, 34, 0xF0, 0x9F, 0x98, 0x80, 10]) .nil))) < maxDepth := by decide
example : nulCount [1, 0, 2, 0, 3] = 2 := by decide
example : splitOnNul [1, 0, 2, 0, 3] = ([[1], [2]], [3]) := by decide

/-- **Tie to the source**: the declarations of /repo that this property's model transliterates
    (`Extracted.codeNames_C02`) have, in the current working tree, exactly the fingerprints of the code the
    model was validated against. Any change to them breaks this obligation; the check then searches the
    correspondence streams for an input on which the changed code violates the property. -/
theorem modelled_code_unchanged : Varlink.Extracted.code_C02 = Varlink.ExpectedCode.code_C02 := by decide

/-- no declaration (function, method, type, constant, variable) has been added to or removed from the
    fingerprinted source files since the models were validated: a new method or `init` can change behaviour
    without touching the text of any existing declaration -/
theorem declarations_known : Varlink.Extracted.declarationSet = Varlink.ExpectedCode.declarationSet := by decide

end Varlink.C02
