/-
  C13 — introspection reports exactly what was registered.
  Model: lean/Varlink/Registry.lean (registration state machine, client-side decoding) on top of
  lean/Varlink/Service.lean (`getInfoReply`, `Registry.description`, the built-in dispatcher).
-/
import Varlink.Registry
import Varlink.Lifecycle
import VarlinkProofs.Lemmas.LifecycleInv
import Varlink.Extracted.Code
import Varlink.ExpectedCode
import Varlink.JsonWF
import VarlinkProofs.Lemmas.Json
namespace Varlink.C13
open Varlink

/-! ### registration histories -/

/-- the interface table after any history = what was there before ++ the accepted registrations, in order -/
theorem ifaces_eq_accepted (s : RegState) (ops : List RegOp) :
    (s.run ops).reg.ifaces = s.reg.ifaces ++ acceptedRegs s ops := by
  induction ops generalizing s with
  | nil => simp [RegState.run, acceptedRegs]
  | cons op ops ih =>
    simp only [RegState.run, acceptedRegs]
    rw [ih]
    cases op with
    | register n d =>
      simp only [RegState.step]
      by_cases h1 : isRegistered s n = true
      · simp [h1]
      · by_cases h2 : (s.running || decide (s.conns > 0)) = true
        · simp [h1, h2]
        · simp [h1, h2]
    | listenStarts => simp [RegState.step]
    | connOpens => simp only [RegState.step]; split <;> simp
    | connCloses => simp [RegState.step]
    | shutdownCompletes => simp [RegState.step]

/-- the identity strings given at creation never change -/
theorem identity_constant (s : RegState) (ops : List RegOp) :
    (s.run ops).reg.vendor = s.reg.vendor ∧ (s.run ops).reg.product = s.reg.product ∧
    (s.run ops).reg.version = s.reg.version ∧ (s.run ops).reg.url = s.reg.url := by
  induction ops generalizing s with
  | nil => simp [RegState.run]
  | cons op ops ih =>
    simp only [RegState.run]
    have := ih (s.step op).1
    have hs : (s.step op).1.reg.vendor = s.reg.vendor ∧ (s.step op).1.reg.product = s.reg.product ∧
        (s.step op).1.reg.version = s.reg.version ∧ (s.step op).1.reg.url = s.reg.url := by
      cases op with
      | register n d =>
        simp only [RegState.step]
        split
        · simp
        · split <;> simp
      | listenStarts => simp [RegState.step]
      | connOpens => simp only [RegState.step]; split <;> simp
      | connCloses => simp [RegState.step]
      | shutdownCompletes => simp [RegState.step]
    exact ⟨this.1.trans hs.1, this.2.1.trans hs.2.1, this.2.2.1.trans hs.2.2.1, this.2.2.2.trans hs.2.2.2⟩

def NamesNodup (s : RegState) : Prop := s.reg.names.Nodup

theorem step_preserves_nodup (s : RegState) (op : RegOp) (h : NamesNodup s) : NamesNodup (s.step op).1 := by
  cases op with
  | register n d =>
    simp only [RegState.step]
    by_cases h1 : isRegistered s n = true
    · simpa [h1] using h
    · by_cases h2 : (s.running || decide (s.conns > 0)) = true
      · simpa [h1, h2] using h
      · simp only [h1, h2]
        simp only [isRegistered, Bool.or_eq_true, decide_eq_true_eq, List.contains_eq_mem, not_or] at h1
        unfold NamesNodup Registry.names at *
        simp only [Bool.false_eq_true, if_false, List.map_append, List.map_cons, List.map_nil]
        rw [← List.cons_append]
        rw [List.nodup_append]
        refine ⟨h, by simp, ?_⟩
        intro a ha b hb
        simp at hb
        subst hb
        intro hab
        subst hab
        simp only [List.mem_cons] at ha
        rcases ha with ha | ha
        · exact h1.1 ha
        · exact h1.2 (by simpa using ha)
  | listenStarts => simpa [RegState.step, NamesNodup] using h
  | connOpens => simp only [RegState.step]; split <;> simpa [NamesNodup] using h
  | connCloses => simpa [RegState.step, NamesNodup] using h
  | shutdownCompletes => simpa [RegState.step, NamesNodup] using h

/-- **each name once**: in every state reachable by any history of register / duplicate register /
    listen / register-while-listening / connection open and close / shutdown / register-again, the
    reported interface list has no duplicates -/
theorem names_nodup (vendor product version url : Bytes) (ops : List RegOp) :
    NamesNodup ((RegState.init vendor product version url).run ops) := by
  suffices h : ∀ s, NamesNodup s → NamesNodup (s.run ops) by
    apply h
    simp [NamesNodup, RegState.init, Registry.names]
  induction ops with
  | nil => intro s h; simpa [RegState.run] using h
  | cons op ops ih => intro s h; exact ih _ (step_preserves_nodup s op h)

/-- **registration order, starting with org.varlink.service** -/
theorem names_in_registration_order (vendor product version url : Bytes) (ops : List RegOp) :
    ((RegState.init vendor product version url).run ops).reg.names =
      orgVarlinkService :: (acceptedRegs (RegState.init vendor product version url) ops).map (·.1) := by
  simp [Registry.names, ifaces_eq_accepted, RegState.init]

/-- **refused registrations change nothing** -/
theorem refused_unchanged (s : RegState) (n d : Bytes) (h : (s.step (.register n d)).2 ≠ .ok) :
    (s.step (.register n d)).1 = s := by
  simp only [RegState.step] at h ⊢
  by_cases h1 : isRegistered s n = true
  · simp [h1]
  · by_cases h2 : (s.running || decide (s.conns > 0)) = true
    · simp [h1, h2]
    · simp [h1, h2] at h

theorem duplicate_refused (s : RegState) (n d : Bytes) (h : n ∈ s.reg.names) :
    s.step (.register n d) = (s, .refusedDuplicate) := by
  have : isRegistered s n = true := by
    simp only [Registry.names, List.mem_cons] at h
    simp only [isRegistered, Bool.or_eq_true, decide_eq_true_eq, List.contains_eq_mem]
    rcases h with h | h
    · exact Or.inl h
    · exact Or.inr (by simpa using h)
  simp [RegState.step, this]

theorem register_while_listening_refused (s : RegState) (n d : Bytes) (hn : n ∉ s.reg.names)
    (h : s.running = true ∨ s.conns > 0) : s.step (.register n d) = (s, .refusedRunning) := by
  have h1 : isRegistered s n = false := by
    simp only [Registry.names, List.mem_cons, not_or] at hn
    simp only [isRegistered, Bool.or_eq_false_iff, decide_eq_false_iff_not]
    exact ⟨hn.1, by simpa using hn.2⟩
  have h2 : (s.running || decide (s.conns > 0)) = true := by
    rcases h with h | h <;> simp [h]
  simp [RegState.step, h1, h2]

theorem register_accepted (s : RegState) (n d : Bytes) (hn : n ∉ s.reg.names)
    (hr : s.running = false) (hc : s.conns = 0) :
    (s.step (.register n d)).2 = .ok ∧ (s.step (.register n d)).1.reg.names = s.reg.names ++ [n] := by
  have h1 : isRegistered s n = false := by
    simp only [Registry.names, List.mem_cons, not_or] at hn
    simp only [isRegistered, Bool.or_eq_false_iff, decide_eq_false_iff_not]
    exact ⟨hn.1, by simpa using hn.2⟩
  simp [RegState.step, h1, hr, hc, Registry.names]

/-! ### what GetInfo / GetInterfaceDescription report, and what the client helpers hand back -/

theorem decodeStrList_ofList (l : List Bytes) : decodeStrList (JList.ofList (l.map JVal.str)) = some l := by
  induction l with
  | nil => rfl
  | cons x xs ih => simp [JList.ofList, decodeStrList, ih]

/-- **GetInfo, end to end at the JSON-value level**: the client's `GetInfo` returns exactly the
    vendor, product, version and url given at creation and the interface names of the service
    (empty strings are omitted on the wire and come back as empty strings). -/
theorem getInfo_reports_state (r : Registry) :
    clientGetInfo r = some { vendor := r.vendor, product := r.product, version := r.version,
                             url := r.url, interfaces := r.names } := by
  have k1 : keyMatches (str "vendor") (str "vendor") = true := by decide
  have k2 : keyMatches (str "vendor") (str "product") = false := by decide
  have k3 : keyMatches (str "vendor") (str "version") = false := by decide
  have k4 : keyMatches (str "vendor") (str "url") = false := by decide
  have k5 : keyMatches (str "vendor") (str "interfaces") = false := by decide
  have k6 : keyMatches (str "product") (str "product") = true := by decide
  have k7 : keyMatches (str "product") (str "version") = false := by decide
  have k8 : keyMatches (str "product") (str "url") = false := by decide
  have k9 : keyMatches (str "product") (str "interfaces") = false := by decide
  have k10 : keyMatches (str "version") (str "version") = true := by decide
  have k11 : keyMatches (str "version") (str "url") = false := by decide
  have k12 : keyMatches (str "version") (str "interfaces") = false := by decide
  have k13 : keyMatches (str "url") (str "url") = true := by decide
  have k14 : keyMatches (str "url") (str "interfaces") = false := by decide
  have k15 : keyMatches (str "interfaces") (str "interfaces") = true := by decide
  unfold clientGetInfo decodeInfo getInfoReply
  simp only []
  have hl := decodeStrList_ofList r.names
  cases hv : r.vendor <;> cases hp : r.product <;> cases hve : r.version <;> cases hu : r.url <;>
    simp [optStr, decodeInfoMembers, k1, k2, k3, k4, k5, k6, k7, k8, k9, k10, k11, k12, k13, k14, k15, hl]

/-- a registered name's description is found (names are unique, so the first match is the only one) -/
theorem lookupDesc_of_mem (l : List (Bytes × Bytes)) (n d : Bytes) (hmem : (n, d) ∈ l)
    (hnd : (l.map (·.1)).Nodup) : lookupDesc n l = some d := by
  induction l with
  | nil => cases hmem
  | cons x xs ih =>
    obtain ⟨xn, xd⟩ := x
    simp only [List.map_cons, List.nodup_cons] at hnd
    simp only [lookupDesc]
    rcases List.mem_cons.mp hmem with h | h
    · cases h; simp
    · have hne : xn ≠ n := by
        intro e; subst e
        exact hnd.1 (List.mem_map.mpr ⟨(xn, d), h, rfl⟩)
      simp [hne, ih h hnd.2]

theorem lookupDesc_none (l : List (Bytes × Bytes)) (n : Bytes) (h : n ∉ l.map (·.1)) : lookupDesc n l = none := by
  induction l with
  | nil => rfl
  | cons x xs ih =>
    obtain ⟨xn, xd⟩ := x
    simp only [List.map_cons, List.mem_cons, not_or] at h
    have hne : ¬ xn = n := fun e => h.1 e.symm
    simp [lookupDesc, hne, ih h.2]

/-- the client reads back whatever description text the service put in (an empty one is omitted on the
    wire and read back as empty) -/
theorem description_roundtrip (d : Bytes) :
    decodeOneString (str "description") (.obj (optStr (str "description") d .nil)) = some d := by
  have kd : keyMatches (str "description") (str "description") = true := by decide
  cases d with
  | nil => simp [optStr, decodeOneString, decodeOneString.go]
  | cons c cs => simp [optStr, decodeOneString, decodeOneString.go, kd]

theorem builtin_description (r : Registry) :
    r.description orgVarlinkService = some orgVarlinkServiceDescription := by
  unfold Registry.description
  exact if_pos rfl

theorem getDescription_of_lookup (r : Registry) (n dd : Bytes) (hne : n.isEmpty = false)
    (h : r.description n = some dd) : clientGetDescription r n = .description dd := by
  unfold clientGetDescription serviceGetDescription
  rw [hne, h]
  simp only [Bool.false_eq_true, if_false, description_roundtrip]

/-- **GetInterfaceDescription returns the registered text unchanged** for every listed user interface
    (guard, stated: the name is not empty — `register ""` is accepted by the code but such an interface
    can never be asked for, see `empty_name_unreachable`) -/
theorem getDescription_registered (r : Registry) (n d : Bytes) (hmem : (n, d) ∈ r.ifaces)
    (hnd : r.names.Nodup) (hne : n ≠ []) :
    clientGetDescription r n = .description d := by
  have hnd' : (r.ifaces.map (·.1)).Nodup := by
    simp only [Registry.names, List.nodup_cons] at hnd; exact hnd.2
  have hno : n ≠ orgVarlinkService := by
    intro e
    simp only [Registry.names, List.nodup_cons] at hnd
    exact hnd.1 (e ▸ List.mem_map.mpr ⟨(n, d), hmem, rfl⟩)
  have hl := lookupDesc_of_mem r.ifaces n d hmem hnd'
  have hemp : n.isEmpty = false := by cases n <;> simp_all
  apply getDescription_of_lookup r n d hemp
  unfold Registry.description
  rw [if_neg hno, hl]

/-- the built-in interface reports its own fixed description -/
theorem getDescription_builtin (r : Registry) :
    clientGetDescription r orgVarlinkService = .description orgVarlinkServiceDescription :=
  getDescription_of_lookup r _ _ (by decide) (builtin_description r)

/-- **any other name: InvalidParameter("interface")** -/
theorem getDescription_other (r : Registry) (n : Bytes) (h : n ∉ r.names) :
    clientGetDescription r n = .invalidParameter (str "interface") := by
  simp only [Registry.names, List.mem_cons, not_or] at h
  have hd : r.description n = none := by
    unfold Registry.description
    rw [if_neg h.1, lookupDesc_none r.ifaces n h.2]
  unfold clientGetDescription serviceGetDescription
  by_cases he : n.isEmpty = true
  · simp [he]
  · simp [he, hd]

theorem empty_name_unreachable (r : Registry) :
    clientGetDescription r [] = .invalidParameter (str "interface") := by
  simp [clientGetDescription, serviceGetDescription]

/-! ### over the wire -/

theorem strList_wf (l : List Bytes) (h : ∀ x ∈ l, utf8Ok x = true) :
    (JList.ofList (l.map JVal.str)).wf = true ∧ (JList.ofList (l.map JVal.str)).depth = 0 := by
  induction l with
  | nil => simp [JList.ofList, JList.wf, JList.depth]
  | cons x xs ih =>
    have hx := h x (by simp)
    have := ih (fun y hy => h y (by simp [hy]))
    simp [JList.ofList, JList.wf, JList.depth, JVal.wf, JVal.depth, hx, this.1, this.2]

/-- **GetInfo through the bytes**: the client parsing the bytes the service wrote for GetInfo gets exactly
    vendor, product, version, url and the interface list (any valid UTF-8 strings). -/
theorem getInfo_over_the_wire (r : Registry)
    (hv : utf8Ok r.vendor = true) (hp : utf8Ok r.product = true) (hve : utf8Ok r.version = true)
    (hu : utf8Ok r.url = true) (hn : ∀ x ∈ r.names, utf8Ok x = true) :
    (parseDoc (render (getInfoReply r))).bind (fun v => decodeInfo (some v)) =
      some { vendor := r.vendor, product := r.product, version := r.version, url := r.url, interfaces := r.names } := by
  have k1 : utf8Ok (str "vendor") = true := by decide
  have k2 : utf8Ok (str "product") = true := by decide
  have k3 : utf8Ok (str "version") = true := by decide
  have k4 : utf8Ok (str "url") = true := by decide
  have k5 : utf8Ok (str "interfaces") = true := by decide
  obtain ⟨hlw, hld⟩ := strList_wf r.names hn
  have hwf : (getInfoReply r).wf = true := by
    unfold getInfoReply
    cases h1 : r.vendor <;> cases h2 : r.product <;> cases h3 : r.version <;> cases h4 : r.url <;>
      simp_all [optStr, JVal.wf, JMembers.wf]
  have hdep : (getInfoReply r).depth ≤ maxDepth := by
    unfold getInfoReply
    cases h1 : r.vendor <;> cases h2 : r.product <;> cases h3 : r.version <;> cases h4 : r.url <;>
      simp [optStr, JVal.depth, JMembers.depth, hld, maxDepth]
  rw [parseDoc_render _ hwf hdep]
  exact getInfo_reports_state r

/-! ### non-vacuity (kept small: kernel `decide` re-evaluates the state at every use, so long histories
     are left to the compiled driver, which runs them on every check) -/

def r1 : Registry := { vendor := str "v", ifaces := [(str "a.b", str "interface a.b"), (str "c.d", [])] }
def s0 : RegState := RegState.init (str "v") (str "p") (str "1") (str "u")
def s1 : RegState := (s0.step (.register (str "a.b") (str "interface a.b"))).1

example : r1.names.Nodup := by decide
example : (str "a.b", str "interface a.b") ∈ r1.ifaces ∧ str "a.b" ≠ [] := by decide
example : str "x.y" ∉ r1.names := by decide
example : (s0.step (.register (str "a.b") (str "interface a.b"))).2 = .ok := by decide
example : (s1.step (.register (str "a.b") (str "other"))).2 = .refusedDuplicate := by decide
example : (((s1.step .listenStarts).1).step (.register (str "c.d") [])).2 = .refusedRunning := by decide
example : s1.reg.names = [orgVarlinkService, str "a.b"] := by decide

/-! ### the registration guard is the lifecycle's (C14) -/

/-- the registration history abstracts a lifecycle state to `running` and the number of counted connections -/
def regView (r : Registry) (w : Life.World) : RegState := { reg := r, running := w.running, conns := w.counter.toNat }

/-- **The guard used in the registration histories is the one the lifecycle transition system of C14 has**: in
    every reachable lifecycle state — any interleaving of serving calls, connections, shutdown, faults — a
    registration of a new name is refused by the history model exactly when `RegisterInterface` is refused there
    (`running` or a connection still counted), and is accepted otherwise. -/
theorem register_guard_is_the_lifecycles (r : Registry) {w : Life.World} (h : Life.Reachable w)
    (n d : Bytes) (hnew : isRegistered (regView r w) n = false) :
    (((regView r w).step (.register n d)).2 = .refusedRunning ↔ Life.registerRefused w = true) ∧
    (((regView r w).step (.register n d)).2 = .ok ↔ Life.registerRefused w = false) := by
  have hc : w.counter = Life.cnt Life.cntd w.conns := (Life.inv_reachable h).counterOk
  have hnn : (0 : Int) ≤ w.counter := by rw [hc]; unfold Life.cnt; exact Int.natCast_nonneg _
  have hpos : (w.counter.toNat > 0) ↔ (w.counter > 0) := by omega
  have hnew' : (n = orgVarlinkService || (r.ifaces.map (·.1)).contains n) = false := by
    simpa [isRegistered, regView] using hnew
  simp only [RegState.step, isRegistered, regView, hnew', Life.registerRefused]
  by_cases hr : w.running = true
  · simp [hr]
  · have hr' : w.running = false := by simpa using hr
    by_cases hcnt : w.counter > 0
    · have : w.counter.toNat > 0 := hpos.mpr hcnt
      simp [hr', hcnt, this]
    · have : ¬ (w.counter.toNat > 0) := fun hh => hcnt (hpos.mp hh)
      simp [hr', hcnt, this]

/-- **Tie to the source**: the declarations of /repo that this property's model transliterates
    (`Extracted.codeNames_C13`) have, in the current working tree, exactly the fingerprints of the code the
    model was validated against. Any change to them breaks this obligation; the check then searches the
    correspondence streams for an input on which the changed code violates the property. -/
theorem modelled_code_unchanged : Varlink.Extracted.code_C13 = Varlink.ExpectedCode.code_C13 := by decide

/-- no declaration (function, method, type, constant, variable) has been added to or removed from the
    fingerprinted source files since the models were validated: a new method or `init` can change behaviour
    without touching the text of any existing declaration -/
theorem declarations_known : Varlink.Extracted.declarationSet = Varlink.ExpectedCode.declarationSet := by decide

end Varlink.C13
