/-
  Driver commands for the service lifecycle (C14, C15): replay a harness history on the transition
  system of `Varlink/Lifecycle.lean`, compare every per-event observation of the real `Service`, and
  evaluate the properties' oracles on the observation alone.

  Line: `life <tag> <n> <event tokens…> | <per event: result ret running haslistener hasaddr counter closes deadlines>
         <nconns> <per conn: replies> <hangs>`
  (the harness side is /verif/harness/life.go; the meaning of the events is documented there).
  The model executes the start-up critical section of Bind / Listen / DoListen as ONE step (fix a1069ea); `settleH`
  runs every thread until it blocks, so the replay below is independent of that granularity.
-/
import Varlink.Lifecycle
import Driver.Proto
namespace Driver.Life
open Varlink.Life Driver

/-- harness bookkeeping around the model's world -/
structure DS where
  w : World := {}
  /-- index of the serving call the harness started last -/
  serve : Option Nat := none
  /-- harness connection number → connection of the model (`none`: there was no endpoint to dial) -/
  connMap : List (Option Nat) := []
  hookA : Bool := false
  hookD : Bool := false
  /-- the accept deadline expires right behind the next connection handed out (token `hE`, controlled listener only) -/
  hookE : Bool := false
  nextAddr : Nat := 1
  /-- the serving call is `Listen` on a real socket at address 0 (no controlled listener) -/
  sock : Bool := false

def pcOf (w : World) (k : Nat) : Option Pc := (w.calls[k]?).map (·.pc)

/-- one step of the first API call that can move, with the Shutdown placements of the history -/
def stepCalls (s : DS) : Nat → Nat → Option DS
  | 0, _ => none
  | n + 1, k =>
    match s.w.calls[k]? with
    | none => none
    | some c =>
      let fireD := c.pc == .refresh && s.hookD && s.w.lst.isSome
      let w0 := if fireD then stepShutdown s.w else s.w
      match stepCall w0 k with
      | some w1 =>
        let fireA := c.pc == .inAccept && pcOf w1 k == some .gotConn && s.hookA
        some { s with w := if fireA then stepShutdown w1 else w1, hookA := s.hookA && !fireA,
                      hookD := s.hookD && !fireD }
      | none => stepCalls s n (k + 1)

def stepAny (s : DS) : Option DS :=
  match stepCalls s s.w.calls.length 0 with
  | some s' => some s'
  | none =>
    match firstEnabled s.w ((List.range s.w.conns.length).map Label.ctxEnd ++
                            (List.range s.w.conns.length).map Label.handler) with
    | some w' => some { s with w := w' }
    | none => none

/-- run until every thread is blocked or finished -/
def settleH : Nat → DS → DS
  | 0, s => s
  | n + 1, s =>
    match stepAny s with
    | some s' => settleH n s'
    | none => s

def fuel : Nat := 400

def doLabel (s : DS) (a : Label) : Option DS := (step s.w a).map fun w' => { s with w := w' }

def retOfCall (w : World) (k : Nat) : Option Ret :=
  match w.calls[k]? with
  | some c => if c.pc == .returned then c.ret else none
  | none => none

inductive ConnSel where
  | bad (why : String)
  | conn (i : Nat) (x : Conn)

def connFor (s : DS) (tok : String) : ConnSel :=
  match (String.ofList (tok.toList.drop 1)).toNat? with
  | none => .bad "none"
  | some h =>
    match s.connMap[h]? with
    | none => .bad "none"
    | some none => .bad "refused"
    | some (some i) =>
      match s.w.conns[i]? with
      | none => .bad "none"
      | some x =>
        if x.phase == .refused then .bad "refused"
        else if x.cli != .open then .bad "closed"
        else .conn i x

def serverEndClosed (p : Phase) : Bool :=
  p == .dropped || p == .closed || p == .decremented || p == .done

/-- one history event: new state and the result token the harness should have observed -/
def event (s : DS) (tok : String) : DS × String :=
  match tok.toList with
  | 'B' :: _ =>
    let k := s.w.calls.length
    match doLabel s (.spawn .bind false (some s.nextAddr)) with
    | none => (s, "unreachable")
    | some s1 =>
      let s2 := settleH fuel { s1 with nextAddr := s.nextAddr + 1 }
      (s2, match retOfCall s2.w k with
           | some .nil => "nil"
           | some .errRunning => "running"
           | some _ => "err"
           | none => "hang")
  | 'S' :: r =>
    let active : Bool := match s.serve with
      | some k => pcOf s.w k != some .returned
      | none => false
    if active then (s, "skip")
    else
      let k := s.w.calls.length
      match doLabel s (if s.sock then .spawn .listen (r == ['1']) (some 0) else .spawn .doListen (r == ['1']) none) with
      | none => (s, "unreachable")
      | some s1 => (settleH fuel { s1 with serve := some k }, "go")
  | 'L' :: _ =>
    if !s.w.running then (s, "skip")
    else
      let k := s.w.calls.length
      match doLabel s (.spawn .listen false (some s.nextAddr)) with
      | none => (s, "unreachable")
      | some s1 =>
        let s2 := settleH fuel { s1 with nextAddr := s.nextAddr + 1 }
        (s2, match retOfCall s2.w k with
             | some .nil => "nil"
             | some .errRunning => "running"
             | some _ => "err"
             | none => "hang")
  | 'C' :: _ =>
    if s.w.lsnrs.isEmpty then ({ s with connMap := s.connMap ++ [none] }, if s.sock then "refused" else "nolsn")
    else
      let l := s.w.lsnrs.length - 1
      let i := s.w.conns.length
      match doLabel s (.clientConnect l) with
      | none => (s, "unreachable")
      | some s1 =>
        let refused := (s1.w.conns[i]?).map (·.phase) == some .refused
        let s2 := settleH fuel { s1 with connMap := s.connMap ++ [some i], hookE := false }
        -- `hE`: when this connection was handed out by an Accept on an armed listener, the very next Accept of that
        -- call returns a timeout (in the model: the connection is counted, the call is back in Accept, the deadline
        -- expires) — the placement applies to this connect event only
        let accepted := match s2.w.conns[i]? with
          | some x => x.phase != .backlog && x.phase != .refused && x.phase != .dropped
          | none => false
        let s3 :=
          if s.hookE && !s.sock && accepted then
            match (s2.w.conns[i]?).map (·.owner) with
            | some k =>
              match stepExpire s2.w k with
              | some w1 => settleH fuel { s2 with w := w1 }
              | none => s2
            | none => s2
          else s2
        (s3, if refused then "refused" else "ok")
  | ['h', 'A'] => ({ s with hookA := true }, "-")
  | ['h', 'E'] => ({ s with hookE := true }, "-")
  | ['h', 'D'] => ({ s with hookD := true }, "-")
  | 'Q' :: _ =>
    match connFor s tok with
    | .bad why => (s, why)
    | .conn i x =>
      if x.phase == .backlog then (s, "pend")
      else if serverEndClosed x.phase then (s, "fail")
      else
        match doLabel s (.clientCall i) with
        | none => (s, "fail")
        | some s1 =>
          let s2 := settleH fuel s1
          let served' := ((s2.w.conns[i]?).map (·.served)).getD 0
          (s2, if served' == x.served + 1 then "ok"
               else if ((s2.w.conns[i]?).map (fun y => serverEndClosed y.phase)).getD false then
                 (if s.sock then "fail" else "eof") else "hang")
  | 'F' :: _ =>
    match connFor s tok with
    | .bad why => (s, why)
    | .conn i x =>
      if x.phase == .backlog then (s, "pend")
      else if serverEndClosed x.phase then (s, "fail")
      else
        match (doLabel s (.clientCall i)).bind (doLabel · (.handler i)) |>.bind (doLabel · (.handlerFails i)) with
        | none => (s, "hang")
        | some s1 =>
          let s2 := settleH fuel s1
          (s2, if ((s2.w.conns[i]?).map (fun y => serverEndClosed y.phase)).getD false then
                 (if s.sock then "fail" else "eof") else "hang")
  | 'X' :: _ =>
    match connFor s tok with
    | .bad why => (s, why)
    | .conn i _ =>
      match doLabel s (.clientClose i) with
      | none => (s, "unreachable")
      | some s1 => (settleH fuel s1, "-")
  | 'A' :: _ =>
    match connFor s tok with
    | .bad why => (s, why)
    | .conn i _ =>
      match doLabel s (.clientAbort i) with
      | none => (s, "unreachable")
      | some s1 => (settleH fuel s1, "-")
  | 'K' :: _ =>
    match s.serve with
    | none => (s, "skip")
    | some k =>
      match doLabel s (.ctxCancel k) with
      | none => (s, "unreachable")
      | some s1 => (settleH fuel s1, "-")
  | 'T' :: _ =>
    match s.serve.bind (fun k => stepExpire s.w k) with
    | none => (s, "skip")
    | some w1 =>
      let w2 := if s.hookA then stepShutdown w1 else w1
      (settleH fuel { s with w := w2, hookA := false }, "fired")
  | 'H' :: _ =>
    let r := if shutdownFails s.w then "err" else "nil"
    (settleH fuel { s with w := stepShutdown s.w }, r)
  | 'G' :: _ => (s, if s.w.lst.isSome then "set" else "nil")
  | 'R' :: _ => (s, if registerRefused s.w then "refused" else "ok")
  | _ => (s, "unknown")

structure Snap where
  ret : Nat
  running : Bool
  lst : Bool
  addr : Bool
  counter : Int
  closes : Nat
  deadlines : Nat
  deriving BEq

def retClass (s : DS) : Nat :=
  match s.serve with
  | none => 0
  | some k =>
    match s.w.calls[k]? with
    | none => 0
    | some c =>
      if c.pc != .returned then 1
      else match c.ret with
        | some .nil => 2
        | none => 2
        | some .timeout => 3
        | some .panicNil => 5
        | some _ => 4

def snapOf (s : DS) : Snap :=
  { ret := retClass s, running := s.w.running, lst := s.w.lst.isSome, addr := s.w.addrF.isSome,
    counter := s.w.counter, closes := (s.w.lsnrs.map (·.closeCalls)).sum,
    deadlines := (s.w.lsnrs.map (·.deadlineCalls)).sum }

def snapP : P Snap := do
  let ret ← nat; let running ← bool; let lst ← bool; let addr ← bool
  let counter ← int; let closes ← nat; let deadlines ← nat
  pure { ret, running, lst, addr, counter := counter, closes, deadlines }

def snapDiff (sock : Bool) (e o : Snap) : Option String :=
  if e.ret != o.ret then some s!"return-value(model={e.ret},observed={o.ret})"
  else if e.running != o.running then some "running-flag"
  else if e.lst != o.lst then some "listener-field"
  else if e.addr != o.addr then some "address-fields"
  else if e.counter != o.counter then some s!"active-count(model={e.counter},observed={o.counter})"
  else if !sock && e.closes != o.closes then some s!"close-calls(model={e.closes},observed={o.closes})"
  else if !sock && e.deadlines != o.deadlines then some "deadline-calls"
  else none

def evKind (tok : String) : String := String.ofList (tok.toList.take 1)

/-- the properties' oracles, evaluated on the observation only.
    `prev` is the snapshot before the event; state: (closedSince : the listener stored in the service was
    shut down or timed out and nothing was bound since, lastFired : the last event was an expiry that fired). -/
structure Orc where
  sock : Bool := false
  closedSince : Bool := false
  hookA : Bool := false
  hookD : Bool := false
  bad : Option String := none

def oracleStep (o : Orc) (tok res : String) (prev cur : Snap) : Orc :=
  if o.bad.isSome then o else
  let k := evKind tok
  let o := if tok == "hA" then { o with hookA := true } else if tok == "hD" then { o with hookD := true } else o
  -- C15: the timeout error only at an expiry that found no open connection
  let o :=
    if cur.ret == 3 && prev.ret != 3 then
      if !(k == "T" && res == "fired") then { o with bad := some "C15 timeout-return-without-expiry" }
      else if prev.counter != 0 then { o with bad := some "C15 timeout-return-while-a-connection-is-open" }
      else if cur.lst || (!o.sock && cur.closes ≤ prev.closes) then
        { o with bad := some "C15 endpoint-not-released-after-timeout" }
      else { o with closedSince := true }
    else if k == "T" && res == "fired" && prev.ret == 1 && prev.counter == 0 && !o.hookA && !o.hookD && cur.ret != 3 then
      { o with bad := some "C15 idle-expiry-did-not-stop-the-service" }
    else if k == "T" && res == "fired" && prev.counter != 0 && !o.hookA && !o.hookD &&
        (cur.ret != 1 || (prev.running && !cur.running)) then
      { o with bad := some "C15 expiry-stopped-the-service-while-a-connection-is-open" }
    else o
  let o := if k == "T" || k == "C" then { o with hookA := false } else o
  -- C14: no client gets through after Shutdown / timeout until something is bound again
  let o :=
    if k == "H" && prev.lst then { o with closedSince := true }
    else if k == "B" && res == "nil" then { o with closedSince := false }
    else if o.sock && k == "S" && res == "go" then { o with closedSince := false }   -- Listen binds again
    else o
  if k == "C" && res == "ok" && o.closedSince then { o with bad := some "C14 client-accepted-after-shutdown" }
  else if k == "B" && res != "running" && prev.running then { o with bad := some "C14 bind-not-refused-while-running" }
  else if (k == "B" || k == "L") && res == "running" && cur != prev then
    { o with bad := some "C14 refused-bind-changed-the-service" }
  else o

def hasNontrivial (evs : List String) (snaps : List Snap) : Bool :=
  -- an open connection at a deciding event (Shutdown or expiry)
  let rec go : List String → List Snap → Int → Bool
    | e :: es, s :: ss, prevCnt =>
      ((evKind e == "H" || evKind e == "T") && prevCnt > 0) || go es ss s.counter
    | _, _, _ => false
  go evs snaps 0

/-- `life <tag> <n> <events…> | …` -/
def cmdLife : P String := do
  let tag ← tok
  let evs ← listOf tok
  expect "|"
  let obs ← (List.range evs.length).mapM (fun _ => do let r ← tok; let s ← snapP; pure (r, s))
  let replies ← listOf nat
  let hangs ← nat
  let snaps := obs.map (·.2)
  let prop := String.ofList (tag.toList.take 3)
  let body := evs.length
  let nconn := replies.length
  let final := snaps.getLast?.getD { ret := 0, running := false, lst := false, addr := false, counter := 0, closes := 0, deadlines := 0 }
  let iR0 := evs.length - 1 - (evs.reverse.findIdx (· == "R"))
  let feats := s!"nt={if hasNontrivial (evs.take iR0) snaps then 1 else 0} kind={tag} len={body} conns={nconn} " ++
    s!"timeouts={(snaps.filter (·.ret == 3)).length != 0} finalret={final.ret}"
  if hangs != 0 then return s!"DIFF {prop} goroutines-did-not-settle {feats}"
  -- oracles on the observation
  let sock := (tag.toList.drop 3).take 4 == "sock".toList
  let mut orc : Orc := { sock }
  let mut prev : Snap := { ret := 0, running := false, lst := false, addr := false, counter := 0, closes := 0, deadlines := 0 }
  for (e, (r, sn)) in evs.zip obs do
    orc := oracleStep orc e r prev sn
    prev := sn
  if let some b := orc.bad then return s!"DIFF {b} {feats}"
  -- epilogue: H, X for every connection, then R [B] S0 C Q H X G
  let n := evs.length
  let iR := n - 1 - (evs.reverse.findIdx (· == "R"))
  if n ≥ 7 && iR + 6 < n then
    let (_, sR) := obs.getD iR ("", prev)
    if sR.ret == 1 then return s!"DIFF C14 serving-call-did-not-return-after-shutdown-and-drain {feats}"
    if sR.counter != 0 then return s!"DIFF C14 active-count-not-zero-after-drain {feats}"
    if sR.running then return s!"DIFF C14 still-running-after-return {feats}"
    let cyc := ((evs.zip obs).drop (iR + 1)).take (n - iR - 3)
    let want (e : String) : String :=
      match evKind e with
      | "B" => "nil" | "S" => "go" | "C" => "ok" | "Q" => "ok" | "H" => "nil" | _ => "?"
    if cyc.any (fun (e, (r, _)) => want e != r) then
      return s!"DIFF C14 service-not-reusable({String.intercalate "," (cyc.map (·.2.1))}) {feats}"
    if final.ret != 2 || final.counter != 0 || final.running || final.lst then
      return s!"DIFF C14 second-serve-did-not-end-cleanly {feats}"
  -- the model on the same history
  let mut s : DS := { sock }
  for (e, (r, sn)) in evs.zip obs do
    let (s', r') := event s e
    s := s'
    if r' != r then return s!"DIFF {prop} model-mismatch-result-of-{evKind e}(model={r'},observed={r}) {feats}"
    if let some d := snapDiff sock (snapOf s) sn then return s!"DIFF {prop} model-mismatch-after-{evKind e}-{d} {feats}"
  let expReplies := s.connMap.map fun m =>
    match m with
    | none => 0
    | some i => ((s.w.conns[i]?).map (·.served)).getD 0
  if expReplies != replies then return s!"DIFF {prop} model-mismatch-replies {feats}"
  if s.w.wgPanic then return s!"DIFF {prop} model-predicts-waitgroup-panic {feats}"
  return s!"OK {feats}"

/-- `lifeover <trials> <refused> <early> <hits> <stuck>`: result of the start-up overlap probe (harness/life_probe.go):
    a `Bind` racing with the start of `DoListen` must either be refused (the serving call was first) or complete
    before the serving call reads the listener (`early`); `hits` counts the trials in which it was accepted although
    the serving call had already picked up the old listener, `stuck` those of them in which Shutdown then did not end
    serving (the defect repaired by a1069ea) -/
def cmdLifeOver : P String := do
  let trials ← nat; let refused ← nat; let early ← nat; let hits ← nat; let stuck ← nat
  let feats := s!"nt={if refused + early == trials && trials != 0 then 1 else 0} trials={trials} refused={refused} early={early} hits={hits} stuck={stuck}"
  if stuck != 0 then
    return s!"DIFF C14 bind-concurrent-with-serve-start-not-refused-shutdown-does-not-end-serving {feats}"
  if hits != 0 then
    return s!"DIFF C14 bind-concurrent-with-serve-start-not-refused {feats}"
  return s!"OK {feats}"

def table : List (String × P String) := [("life", cmdLife), ("lifeover", cmdLifeOver)]

end Driver.Life
