import Varlink
import Driver.Proto
import Driver.Cmds
namespace Driver.Misc
open Driver Varlink

def kindOfTok (t : String) : FdKind := if t == "sock" || t == "tcp" then .listeningSocket else .other

/-- `act <pid> <LISTEN_PID opt> <LISTEN_FDS opt> <LISTEN_FDNAMES opt> <kind fd3> <kind fd4> <kind fd5> | <observed>` -/
def cmdAct : P String := do
  let pid ← nat
  let lp ← optOf bytes
  let fds ← optOf bytes
  let names ← optOf bytes
  let k3 ← tok
  let k4 ← tok
  let k5 ← tok
  expect "|"
  let obs ← tok
  let env : ActEnv := { listenPid := lp, listenFds := fds, listenFdNames := names }
  let kind (fd : Nat) : FdKind :=
    if fd = 3 then kindOfTok k3 else if fd = 4 then kindOfTok k4 else if fd = 5 then kindOfTok k5 else .other
  let sel := selectFd env (pid : Int)
  let exp := match activation env (pid : Int) kind with
    | some fd => s!"fd{fd}"
    | none => "fallback"
  let nfds := (atoi (fds.getD [])).getD 0
  let selS := match sel with | some fd => s!"{fd}" | none => "none"
  let pidOk := atoi (lp.getD []) == some (pid : Int)
  let feats := s!"nt={if nfds ≥ 2 then 1 else 0} pidmatch={pidOk} nfds={if nfds > 3 then 9 else if nfds < 0 then -1 else nfds} names={names.isSome} selected={selS} expected={exp}"
  if obs == exp then return s!"OK {feats}"
  else return s!"DIFF C20 served={obs} expected={exp} {feats}"

/-- `atoi <bytes> | <ok 0/1> <value as decimal text, sign included>` : model of strconv.Atoi vs the real one -/
def cmdAtoi : P String := do
  let s ← bytes
  expect "|"
  let ok ← bool
  let v ← tok
  let m := atoi s
  let ms := match m with | some i => s!"{i}" | none => "err"
  let os := if ok then v else "err"
  let feats := s!"nt={if s.length ≥ 2 then 1 else 0} len={if s.length > 20 then 21 else s.length} res={if m.isSome then "ok" else "err"}"
  if ms == os then return s!"OK {feats}" else return s!"DIFF C20 atoi model={ms} real={os} {feats}"


/-! ## C19: `addr <n> {<addr> <pre> <must> <cmp> <kind>} | {<class> <network> <laddr> <afterBind> <reach> <afterShutdown> <clientClass> <servRet>}` -/

structure AddrStep where
  addr : Bytes
  pre : String
  must : Bool
  cmp : Bool
  kind : String

structure AddrObs where
  cls : String
  network : Bytes
  laddr : Bytes
  afterBind : Nat
  reach : Nat
  afterShutdown : Nat
  clientClass : String
  servRet : String


/-- judge one step; returns (failure reason or none, next model state) -/
def judgeAddr (σ : BindState) (s : AddrStep) (o : AddrObs) : Option String × BindState :=
  let (σ', r) := bind σ s.addr
  -- the property itself, read off the string (independent of `bind`): refusal classes
  let reading := endpointOf s.addr
  let propertySaysRefuse : Bool := match reading with
    | none => true
    | some (p, ad) => !(p == protoUnix || p == protoTcp) || (p == protoUnix && ad.isEmpty)
  if o.cls == "panic" || o.clientClass == "panic" then (some "panic", σ')
  else if o.cls == "hang" then (some "bind-or-serve-cycle-hangs(service-unusable)", σ')
  else if propertySaysRefuse && o.cls == "ok" then (some "ill-formed-address-accepted", σ')
  else
  match r with
  | .refusedRunning => (if o.cls == "running" then none else some s!"model=running,observed={o.cls}", σ')
  | .refusedParse e =>
    let want := match e with
      | .emptyUnixPath => "invalid-address"
      | _ => "unknown-protocol"
    (if o.cls == want then none else some s!"model={want},observed={o.cls}", σ')
  | .panic => (some "model-panics", σ')
  | .attempt p ad rm ul =>
    if o.cls == "listenerr" then
      (if s.must then some "valid-address-not-bound" else none, σ')
    else if o.cls != "ok" then (some s!"model=attempt,observed={o.cls}", σ')
    else
      -- a successful serve ends with teardown: the address fields are cleared
      let σ'' : BindState := {}
      let isFs := p == protoUnix && !isAbstract ad
      if o.network != p then (some "wrong-network", σ'')
      else if s.cmp && o.laddr != ad then (some "wrong-endpoint", σ'')
      else if isFs && o.afterBind != 1 then (some "socket-path-not-created", σ'')
      else if isFs && ul && o.afterShutdown != 0 then (some "socket-path-not-removed", σ'')
      else if rm != isFs || ul != isFs then (some "model-fs-flags", σ'')
      -- a tcp endpoint whose port the kernel chooses ("tcp:", "…:0") cannot be named by the same string
      else if o.reach != 1 && (p == protoUnix || s.cmp || s.kind == "tcp-name") then (some "client-with-same-string-does-not-reach-service", σ'')
      else if o.servRet != "nil" then (some s!"serving-call-returned-{o.servRet}-after-shutdown", σ'')
      else (none, σ'')

def cmdAddr : P String := do
  let n ← nat
  let rec steps : Nat → P (List AddrStep)
    | 0 => pure []
    | k + 1 => do
      let a ← bytes; let pre ← tok; let must ← bool; let cmp ← bool; let kind ← tok
      let r ← steps k
      pure ({ addr := a, pre, must, cmp, kind } :: r)
  let ss ← steps n
  expect "|"
  let rec obss : Nat → P (List AddrObs)
    | 0 => pure []
    | k + 1 => do
      let c ← tok; let nw ← bytes; let la ← bytes; let ab ← nat; let re ← nat; let ash ← nat
      let cc ← tok; let sr ← tok
      let r ← obss k
      pure ({ cls := c, network := nw, laddr := la, afterBind := ab, reach := re, afterShutdown := ash, clientClass := cc, servRet := sr } :: r)
  let os ← obss n
  let rec go (σ : BindState) : List AddrStep → List AddrObs → Option String
    | s :: ss, o :: os =>
      match judgeAddr σ s o with
      | (some why, _) => some s!"{why} kindfail={s.kind}"
      | (none, σ') => go σ' ss os
    | _, _ => none
  let kinds := String.intercalate "," (ss.map (·.kind))
  let classes := String.intercalate "," (os.map (·.cls))
  let nt := if ss.any (fun s => (s.addr.filter (fun c => c == colon || c == semi)).length ≥ 2) then 1 else 0
  let feats := s!"nt={nt} steps={n} first={(ss.head?.map (·.kind)).getD "-"} firstclass={(os.head?.map (·.cls)).getD "-"} seq={kinds}/{classes}"
  match go {} ss os with
  | some why => return s!"DIFF C19 {why} {feats}"
  | none => return s!"OK {feats}"

/-! ## C13: `reg <vendor> <product> <version> <url> <n> {op} | {result per register} <info…> <k> {name kind text} <resolver…>` -/

inductive ROpTok where
  | register (n d : Bytes) | listen | open_ | close | shutdown
  | rebind                         -- a second Bind while serving (refused): no effect on the state
  | openfailed                     -- a client could not connect although the history has the service serving
  | rebindaccepted                 -- a second Bind while serving was NOT refused
  | info | desc (n : Bytes)       -- queries in the middle of a history: no effect on the state

def regOpP : P ROpTok := do
  let k ← tok
  match k with
  | "register" => do let n ← bytes; let d ← bytes; pure (.register n d)
  | "listen" => pure .listen
  | "open" => pure .open_
  | "close" => pure .close
  | "shutdown" => pure .shutdown
  | "rebind" => pure .rebind
  | "openfailed" => pure .openfailed
  | "rebindaccepted" => pure .rebindaccepted
  | "info" => pure .info
  | "desc" => do let n ← bytes; pure (.desc n)
  | _ => throw s!"bad reg op {k}"

def ROpTok.toOp : ROpTok → Option RegOp
  | .register n d => some (.register n d)
  | .listen => some .listenStarts
  | .open_ => some .connOpens
  | .close => some .connCloses
  | .shutdown => some .shutdownCompletes
  | .info => none
  | .rebind => none
  | .openfailed => none
  | .rebindaccepted => none
  | .desc _ => none

def regResStr : RegResult → String
  | .ok => "ok" | .refusedDuplicate => "dup" | .refusedRunning => "running" | .noop => "noop"

/-- run the history, collecting the result of every register operation -/
def runRegOps (s : RegState) : List RegOp → RegState × List String
  | [] => (s, [])
  | op :: ops =>
    let (s', r) := s.step op
    let (sf, rs) := runRegOps s' ops
    match op with
    | .register _ _ => (sf, regResStr r :: rs)
    | _ => (sf, rs)

def infoBeq (a : Info) (v p ver u : Bytes) (ifs : List Bytes) : Bool :=
  a.vendor == v && a.product == p && a.version == ver && a.url == u && a.interfaces == ifs

def cmdReg : P String := do
  let vendor ← bytes; let product ← bytes; let version ← bytes; let url ← bytes
  let ops ← listOf regOpP
  expect "|"
  -- the service's white-box connection count failed to reach the value the history implies at some point
  let counterOff ← bool
  let nreg := (ops.filter (fun o => match o with | .register _ _ => true | _ => false)).length
  -- walk the history: registrations report their result, queries are compared with the state then
  let rec walk (s : RegState) : List ROpTok → P (RegState × List String × List String × Option String)
    | [] => pure (s, [], [], none)
    | o :: os => do
      match o with
      | .register n d =>
        let t ← tok
        let (s', r) := s.step (.register n d)
        let (sf, es, obs, bad) ← walk s' os
        pure (sf, regResStr r :: es, t :: obs, bad)
      | .info =>
        let ok ← bool
        let v ← bytes; let p ← bytes; let ver ← bytes; let u ← bytes
        let ifs ← listOf bytes
        let good := match clientGetInfo s.reg with
          | some inf => ok && infoBeq inf v p ver u ifs
          | none => false
        let (sf, es, obs, bad) ← walk s os
        pure (sf, es, obs, if good then bad else some "getinfo-in-mid-history-differs")
      | .desc n =>
        let k ← tok
        let t ← bytes
        let good := match clientGetDescription s.reg n with
          | .description d => k == "desc" && t == d
          | .invalidParameter p => k == "invalid" && t == p
        let (sf, es, obs, bad) ← walk s os
        pure (sf, es, obs, if good then bad else some "description-in-mid-history-differs")
      | .rebindaccepted =>
        let (sf, es, obs, _) ← walk s os
        pure (sf, es, obs, some "second-bind-during-serving-was-accepted")
      | .openfailed =>
        let (sf, es, obs, _) ← walk s os
        pure (sf, es, obs, some "connection-refused-while-the-history-has-the-service-serving")
      | other =>
        let s' := match other.toOp with
          | some op => (s.step op).1
          | none => s
        walk s' os
  let (sfW, expResW, obsRes, midBad) ← walk (RegState.init vendor product version url) ops
  let infoOk ← bool
  let gv ← bytes; let gp ← bytes; let gver ← bytes; let gu ← bytes
  let gi ← listOf bytes
  let asked ← listOf (do let n ← bytes; let k ← tok; let t ← bytes; pure (n, k, t))
  let probes ← listOf (do let n ← bytes; let k ← tok; let t ← bytes; pure (n, k, t))
  let hasResolver ← bool
  let (sf, expRes) := (sfW, expResW)
  let refused := expRes.any (· != "ok")
  let feats := s!"nt={if refused then 1 else 0} ops={ops.length} regs={nreg} accepted={sf.reg.ifaces.length} asked={asked.length}"
  let fin (ok : String) : String :=
    if counterOff then s!"DIFF C14 active-connection-count-never-reached-the-value-the-history-implies {feats}" else ok
  if expRes != obsRes then return s!"DIFF C13 register-results model={expRes} observed={obsRes} {feats}"
  match midBad with
  | some why => return s!"DIFF C13 {why} {feats}"
  | none => pure ()
  if !infoOk then return s!"DIFF C13 getinfo-failed {feats}"
  match clientGetInfo sf.reg with
  | none => return s!"DIFF C13 model-getinfo-undecodable {feats}"
  | some inf =>
    if !infoBeq inf gv gp gver gu gi then return s!"DIFF C13 getinfo-values-differ {feats}"
    -- the property itself on the observation: first name is org.varlink.service, no duplicates
    if gi.head? != some orgVarlinkService then return s!"DIFF C13 first-interface-is-not-org.varlink.service {feats}"
    if !(gi.eraseDups.length == gi.length) then return s!"DIFF C13 duplicate-interface-names {feats}"
    let bad := asked.filter fun (n, k, t) =>
      match clientGetDescription sf.reg n with
      | .description d => !(k == "desc" && t == d)
      | .invalidParameter p => !(k == "invalid" && t == p)
    if !bad.isEmpty then
      return s!"DIFF C13 description-differs count={bad.length} first={(bad.head?.map (fun x => encB x.1)).getD "-"} {feats}"
    -- routing of a call `<name>.Zz` for every asked name, against `route` over the accepted registrations
    let regNames := sf.reg.ifaces.map (·.1)
    let badProbe := probes.filter fun (n, k, t) =>
      match route regNames (n ++ dot :: str "Zz") with
      | .invalidMethod => !(k == "invalid" && t == str "method")
      | .builtin m => !(k == "methodnotfound" && t == m)
      | .notFound i => !(k == "notfound" && t == i)
      | .user _ m => !(k == "notimpl" && t == m)
    if !badProbe.isEmpty then
      let first := badProbe.head?.map (fun x => s!"{encB x.1}:{x.2.1}")
      return s!"DIFF C04 call-routed-differently-from-registrations count={badProbe.length} first={first.getD "-"} {feats}"
    if hasResolver then
      let js ← bytes
      let rok ← bool
      let rv ← bytes; let rp ← bytes; let rver ← bytes; let ru ← bytes
      let ri ← listOf bytes
      let resolveOk ← bool
      match (parseDoc js) with
      | none => return s!"DIFF C13 resolver-json-unparsable {feats}"
      | some v =>
        match decodeInfo (some v) with
        | none => if rok then return s!"DIFF C13 resolver-accepted-undecodable {feats}" else return fin s!"OK resolver=undecodable {feats}"
        | some inf2 =>
          if !rok then return s!"DIFF C13 resolver-getinfo-failed {feats}"
          if !infoBeq inf2 rv rp rver ru ri then return s!"DIFF C13 resolver-values-differ {feats}"
          if !resolveOk then return s!"DIFF C13 resolver-resolve-failed {feats}"
          return fin s!"OK resolver=1 {feats}"
    return fin s!"OK resolver=0 {feats}"

/-! ## C11: `client <flags> <method> <ptok> <pjson> <nsegs> {seg} <nrecv> | <sendclass> <written> <k> {kind flags params name}` -/

structure RecvObs where
  kind : String
  flags : Nat
  params : Bytes
  name : Bytes

def optJ (o : Option JVal) : Option JVal := o.map JVal.sanitize

/-- compare one model result with one observation -/
def recvAgrees (m : RecvResult) (o : RecvObs) : Bool :=
  let pv : Option JVal := if o.params.isEmpty then none else parseDoc o.params
  match m with
  | .unexpectedEOF => o.kind == "ueof"
  | .decodeError => o.kind == "decode"
  | .reply p c =>
    -- `receive` leaves the caller's value alone when there are no parameters
    (o.kind == "reply" && o.flags == (if c then flagContinues else 0) && optJValBeq p pv)
      -- `Connection.Call` with a nil out value: the reply was received, its parameters were not asked for
      || (o.kind == "reply-nilout" && !c)
  | .remoteError n p => o.kind == "remote" && o.name == n && optJValBeq p pv
  | .stdError (.interfaceNotFound i) => o.kind == "std-i" && o.name == i
  | .stdError (.methodNotFound i) => o.kind == "std-m" && o.name == i
  | .stdError (.methodNotImplemented i) => o.kind == "std-n" && o.name == i
  | .stdError (.invalidParameter i) => o.kind == "std-p" && o.name == i

def recvKind : RecvResult → String
  | .unexpectedEOF => "ueof" | .decodeError => "decode" | .reply _ _ => "reply"
  | .remoteError _ _ => "remote" | .stdError _ => "std"

def cmdClient : P String := do
  let flagsN ← nat
  let method ← bytes
  let ptok ← tok
  let pjson ← bytes
  let segs ← listOf bytes
  let nrecv ← nat
  -- further calls were sent between the receives: no effect on what the receives return (the model's `receive`
  -- depends on the reply stream and the reader state only)
  let pipelined ← bool
  -- an earlier Send on this connection failed with nothing written: no effect on what this Send writes
  let prefail ← bool
  expect "|"
  let sendClass ← tok
  let written ← bytes
  let obs ← listOf (do let k ← tok; let f ← nat; let p ← bytes; let n ← bytes; pure ({ kind := k, flags := f, params := p, name := n } : RecvObs))
  let f := Flags.ofNat flagsN
  let payload : Option Payload :=
    if ptok == "absent" then some .absent
    else if ptok == "bad" then some .bad
    else (parseDoc pjson).map Payload.val
  let stream := segs.flatten
  let (frames, tail) := splitOnNul stream
  let cutInside := !tail.isEmpty
  match payload with
  | none => return s!"PROTO-ERROR unparsable-generated-parameters"
  | some pl =>
    let res := send method pl f
    let forbidden := (f.more && f.oneway) || (f.more && f.upgrade)
    let feats0 := s!"nt={if cutInside then 1 else 0} flags={flagsN} forbidden={forbidden} ptok={ptok} frames={frames.length} segs={segs.length} tail={!tail.isEmpty} pipelined={pipelined} prefail={prefail}"
    -- the property on the observation itself: forbidden combinations write nothing
    if sendClass == "panic" then return s!"DIFF C11 send-panic {feats0}"
    if forbidden && !written.isEmpty then return s!"DIFF C11 forbidden-flags-but-bytes-written {feats0}"
    match res with
    | .refusedOneway =>
      if sendClass == "refused:oneway" && written.isEmpty then return s!"OK send=refused {feats0}"
      else return s!"DIFF C11 send model=refused-oneway observed={sendClass} {feats0}"
    | .refusedMore =>
      if sendClass == "refused:more" && written.isEmpty then return s!"OK send=refused {feats0}"
      else return s!"DIFF C11 send model=refused-more observed={sendClass} {feats0}"
    | .encodeError =>
      if sendClass == "encode" && written.isEmpty then return s!"OK send=encode-error {feats0}"
      else return s!"DIFF C11 send model=encode-error observed={sendClass} {feats0}"
    | .written frame =>
      if sendClass != "ok" then return s!"DIFF C11 send model=written observed={sendClass} {feats0}"
      -- exactly one frame: JSON object, one NUL at the end, no NUL inside (C02), equal to the model's object
      let (wf, wtail) := splitOnNul written
      if !(wf.length == 1 && wtail.isEmpty) then return s!"DIFF C02 client-frame-not-one-nul-terminated-message {feats0}"
      match parseDoc (wf.headD []) with
      | some (.obj ms) =>
        if !((JVal.obj ms) == frame.sanitize) then return s!"DIFF C11 sent-call-differs-from-request {feats0}"
        -- the flags on the wire, read as the service reads them, are the requested ones
        match applyMembers {} ms with
        | some c =>
          if !(c.more == f.more && c.oneway == f.oneway && c.upgrade == f.upgrade) then
            return s!"DIFF C11 sent-flags-differ-from-requested {feats0}"
          let bytesEq := written == render frame.sanitize ++ [0]
          -- receive, repeatedly, on the scripted reply stream
          let rec go (k : Nat) (b : Bufio) (net : Net) (os : List RecvObs) (i : Nat) : Option String × List String :=
            match k, os with
            | 0, _ => (none, [])
            | _, [] => (some s!"missing-observation-{i}", [])
            | k + 1, o :: os =>
              let (m, b', net') := receive 4096 b net
              if o.kind == "panic" then (some s!"receive-panic-at-{i}", [])
              else if !recvAgrees m o then (some s!"receive-{i} model={recvKind m} observed={o.kind}", [])
              else
                let (r, ks) := go k b' net' os (i + 1)
                (r, recvKind m :: ks)
          let (bad, kinds) := go nrecv {} segs obs 0
          let feats := s!"{feats0} renderEq={bytesEq} kinds={String.intercalate "," (kinds.take 4)}"
          match bad with
          | some why => return s!"DIFF C11 {why} {feats}"
          | none =>
            if obs.length != nrecv then return s!"DIFF C11 observation-count {feats}"
            return s!"OK send=written {feats}"
        | none => return s!"DIFF C11 sent-call-not-decodable-by-service {feats0}"
      | _ => return s!"DIFF C02 client-frame-not-a-json-object {feats0}"

/-! ## C02/C03: `e2e <transport> <n> {<method> <flags> <hasparams> <params>} | <k> {seen} {<sendok> <m> {kind flags params name}} <hascap> <c2s> <s2c>` -/

structure E2eCall where
  method : Bytes
  flags : Nat
  params : Option Bytes

def e2eReg : Registry :=
  { vendor := str "e2e", product := str "p", version := str "1", url := str "u",
    ifaces := [(str "org.example.e2e", str "interface org.example.e2e\nmethod M() -> ()\n")] }

/-- what the client's receive loop returns for the frames the service wrote for one call -/
def expectedResults (frames : List ReplyFrame) : List RecvResult :=
  -- the loop stops after the first result that is not a continues-reply
  let rec go : List ReplyFrame → List RecvResult
    | [] => []
    | f :: fs =>
      -- the client's decoder reads a JSON null as "no parameters" (applyReplyMember)
      let ps : Option JVal := f.params.bind fun v => match v with | .null => none | v => some v
      let r : RecvResult := if f.error ≠ [] then dispatchError f.error ps else .reply ps f.continues
      match r with
      | .reply _ true => r :: go fs
      | _ => [r]
  go frames

/-- every message of a captured direction is one JSON object + NUL; returns the parsed objects -/
def captureMessages (bs : Bytes) : Option (List JVal) :=
  let (frames, tail) := splitOnNul bs
  if !tail.isEmpty then none
  else
    let parsed := frames.map fun f => match parseDoc f with
      | some (.obj ms) => some (JVal.obj ms)
      | _ => none
    if parsed.any Option.isNone then none else some (parsed.filterMap id)

def cmdE2e : P String := do
  let transport ← tok
  let calls ← listOf (do
    let m ← bytes; let f ← nat; let hp ← bool; let p ← bytes
    pure ({ method := m, flags := f, params := if hp then some p else none } : E2eCall))
  expect "|"
  let seen ← listOf bytes
  let rec obsP : Nat → P (List (Bool × List RecvObs))
    | 0 => pure []
    | k + 1 => do
      let ok ← bool
      let rs ← listOf (do let kd ← tok; let f ← nat; let p ← bytes; let n ← bytes; pure ({ kind := kd, flags := f, params := p, name := n } : RecvObs))
      let r ← obsP k
      pure ((ok, rs) :: r)
  let obs ← obsP calls.length
  let hasCap ← bool
  let c2s ← bytes
  let s2c ← bytes
  -- model: each call decoded as the service decodes the client's object, then handled
  let mut expSeen : List (Option JVal) := []
  let mut expC2s : List JVal := []
  let mut expS2c : List JVal := []
  let mut idx := 0
  let mut maxSeq := 0
  let mut deep := false
  for (c, (sendOk, rs)) in calls.zip obs do
    let f := Flags.ofNat c.flags
    let pv : Option JVal ← match c.params with
      | none => pure none
      | some t => match parseDoc t with
        | some v => pure (some v)
        | none => throw "unparsable generated parameters"
    if !sendOk then return s!"DIFF C03 send-failed call={idx} transport={transport}"
    -- bit 16 of the flags field: the call went through `Connection.Call` (model: `callWrapper`), which writes absent
    -- parameters as `"parameters":null`
    let viaCall := c.flags / 16 % 2 == 1
    let obj := if viaCall && pv.isNone then callObj c.method (some .null) false false false
               else callObj c.method pv f.more f.oneway f.upgrade
    expC2s := expC2s ++ [obj.sanitize]
    let ci : CallIn := { method := c.method, params := pv.bind (fun v => match v with | .null => none | v => some v),
                         more := f.more, oneway := f.oneway, upgrade := f.upgrade }
    let o := handleCall e2eReg scriptedBehaviour ci
    match o.route with
    | .user _ _ => expSeen := expSeen ++ [ci.params]
    | _ => pure ()
    expS2c := expS2c ++ o.frames.map (fun fr => (replyObj fr.sanitize))
    if f.oneway then
      if !rs.isEmpty then return s!"DIFF C03 oneway-call-got-results call={idx} transport={transport}"
    else
      let exp := expectedResults (o.frames.map ReplyFrame.sanitize)
      if exp.length != rs.length then
        return s!"DIFF C03 reply-count call={idx} expected={exp.length} observed={rs.length} transport={transport}"
      for (m, r) in exp.zip rs do
        if !recvAgrees m r then
          return s!"DIFF C03 reply-differs call={idx} model={recvKind m} observed={r.kind} transport={transport}"
      if exp.length > maxSeq then maxSeq := exp.length
    match pv with
    | some v => if v.depth ≥ 2 then deep := true
    | none => pure ()
    idx := idx + 1
  -- what the handler read
  if seen.length != expSeen.length then
    return s!"DIFF C03 handler-invocations expected={expSeen.length} observed={seen.length} transport={transport}"
  for (s, e) in seen.zip expSeen do
    let sv : Option JVal := if s == [0, 97, 98, 115, 101, 110, 116] then none else parseDoc s
    if !optJValBeq sv (e.map JVal.sanitize) then
      return s!"DIFF C03 handler-read-different-parameters transport={transport}"
  let feats := s!"nt={if deep then 1 else 0} transport={transport} calls={calls.length} maxseq={if maxSeq > 10 then 11 else maxSeq} captured={hasCap}"
  if hasCap then
    match captureMessages c2s, captureMessages s2c with
    | some cm, some sm =>
      -- the captured messages begin with exactly the model's messages (a final GetInfo follows)
      if !(listBeq (fun (a b : JVal) => a == b) expC2s (cm.take expC2s.length)) then
        return s!"DIFF C02 client-messages-on-the-wire-differ {feats}"
      if !(listBeq (fun (a b : JVal) => a == b) expS2c (sm.take expS2c.length)) then
        return s!"DIFF C02 service-messages-on-the-wire-differ {feats}"
      return s!"OK {feats} msgs={if cm.length + sm.length > 20 then 21 else cm.length + sm.length}"
    | _, _ => return s!"DIFF C02 captured-stream-is-not-a-sequence-of-json-objects-each-followed-by-one-nul {feats}"
  return s!"OK {feats}"

/-! ## C10: `abort <registry> <stream> <n> {<offset> <mode>} | {<replies> <log> <released> <probeok>} <ret> <count>` -/

abbrev LogEntry := Bytes × Bytes × List Bool

def logEntryBeq (a b : LogEntry) : Bool := a.1 == b.1 && a.2.1 == b.2.1 && a.2.2 == b.2.2

def isLogPrefix : List LogEntry → List LogEntry → Bool
  | [], _ => true
  | _, [] => false
  | a :: as, b :: bs => a.1 == b.1 && a.2.1 == b.2.1 && isLogPrefix as bs

def cmdAbort : P String := do
  let reg ← Driver.registryP
  let stream ← bytes
  let runs ← listOf (do let o ← nat; let m ← tok; pure (o, m))
  expect "|"
  let rec obsP : Nat → P (List (Bytes × List LogEntry × Bool × Bool))
    | 0 => pure []
    | k + 1 => do
      let replies ← bytes
      let log ← listOf (do let i ← bytes; let m ← bytes; let rs ← listOf bool; pure (i, m, rs))
      let released ← bool
      let probe ← bool
      let r ← obsP k
      pure ((replies, log, released, probe) :: r)
  let obs ← obsP runs.length
  let ret ← tok
  let count ← nat
  let mut insideFrame := 0
  let mut hard := 0
  for ((off, mode), (replies, log, released, probe)) in runs.zip obs do
    -- mode linger: the client sent the complete frames before the offset, then `}{` NUL, and kept its end open
    let pre := if mode == "linger" then stream.take off ++ [125, 123, 0] else stream.take off
    let (frames, tail) := splitOnNul pre
    if !tail.isEmpty then insideFrame := insideFrame + 1
    let t := connLoop reg scriptedBehaviour frames
    let expLog : List LogEntry := t.dispatched.map fun (i, m, rs) => (i, m, rs.map ActResult.isErr)
    let where_ := s!"offset={off} mode={mode}"
    if !probe then return s!"DIFF C10 probe-connection-disturbed {where_}"
    if !released && mode == "linger" then
      return s!"DIFF C10 connection-ended-by-the-service-is-not-released-while-the-peer-stays {where_}"
    if !released then return s!"DIFF C10 connection-not-released-after-peer-went-away {where_}"
    if mode == "half" || mode == "linger" then
      let (obsFrames, obsTail) := splitOnNul replies
      if !obsTail.isEmpty then return s!"DIFF C02 trailing-bytes-without-nul {where_}"
      let parsed := obsFrames.map readReplyFrame
      if parsed.any Option.isNone then return s!"DIFF C02 reply-not-a-reply-object {where_}"
      if !listBeq ReplyFrame.beq (t.frames.map ReplyFrame.sanitize) (parsed.filterMap id) then
        return s!"DIFF C10 replies-differ-from-model expected={t.frames.length} observed={obsFrames.length} {where_}"
      if !listBeq logEntryBeq expLog log then
        return s!"DIFF C10 dispatch-log-differs expected={expLog.length} observed={log.length} {where_}"
    else
      hard := hard + 1
      -- the peer vanished without reading: replies may fail, but nothing beyond the model's dispatches
      -- (in particular nothing from an incomplete or undecodable frame) may have been dispatched
      if !isLogPrefix log expLog then
        return s!"DIFF C10 dispatched-something-the-model-does-not expected-at-most={expLog.length} observed={log.length} {where_}"
  let feats := s!"nt={if insideFrame > 0 then 1 else 0} offsets={if runs.length > 20 then 21 else runs.length} hard={if hard > 5 then 6 else hard} midframe={if insideFrame > 5 then 6 else insideFrame} len={if stream.length > 1000 then 1001 else stream.length / 100 * 100}"
  if ret != "nil" then return s!"DIFF C10 serving-call-after-shutdown-{ret} {feats}"
  if count != 0 then return s!"DIFF C10 active-count-not-zero-at-the-end count={count} {feats}"
  return s!"OK {feats}"

/-! ## C01 (N concurrent connections): `connr <registry> <stream> | <replies> <n>` — replies only -/

def cmdConnR : P String := do
  let reg ← Driver.registryP
  let stream ← bytes
  expect "|"
  let replies ← bytes
  let n ← nat
  let (frames, _tail) := splitOnNul stream
  let t := connLoop reg scriptedBehaviour frames
  let (obsFrames, obsTail) := splitOnNul replies
  let feats := s!"nt={if frames.length ≥ 2 then 1 else 0} conns={n} calls={if frames.length > 10 then 11 else frames.length} frames={if t.frames.length > 10 then 11 else t.frames.length} end={Driver.endingStr t.ending}"
  if !obsTail.isEmpty then return s!"DIFF C02 trailing-bytes-without-nul {feats}"
  let parsed := obsFrames.map readReplyFrame
  if parsed.any Option.isNone then return s!"DIFF C02 reply-not-a-reply-object {feats}"
  if !listBeq ReplyFrame.beq (t.frames.map ReplyFrame.sanitize) (parsed.filterMap id) then
    return s!"DIFF C01 frames-on-a-connection-differ-while-other-connections-are-active expected={t.frames.length} observed={obsFrames.length} {feats}"
  return s!"OK {feats}"

/-! ## the JSON model against encoding/json: `jsonself <text> | <valid> <decoded> <remarshalled>` -/

def bytesLt : Bytes → Bytes → Bool
  | [], [] => false
  | [], _ => true
  | _, [] => false
  | a :: as, b :: bs => if a < b then true else if b < a then false else bytesLt as bs

/-- insert into a key-sorted member list, replacing an equal key (last duplicate wins, as Go's map does) -/
def insertMember (k : Bytes) (v : JVal) : List (Bytes × JVal) → List (Bytes × JVal)
  | [] => [(k, v)]
  | (k', v') :: t =>
    if k == k' then (k, v) :: t
    else if bytesLt k k' then (k, v) :: (k', v') :: t
    else (k', v') :: insertMember k v t

/-- what decoding into `map[string]interface{}` and re-encoding does to a value: keys sorted, last duplicate wins -/
partial def canonMap : JVal → JVal
  | .arr xs => .arr (JList.ofList (xs.toList.map canonMap))
  | .obj ms => .obj (JMembers.ofList ((ms.toList.map fun (k, v) => (k, canonMap v)).foldl (fun acc (k, v) => insertMember k v acc) []))
  | v => v

def cmdJsonSelf : P String := do
  let text ← bytes
  expect "|"
  let valid ← bool
  let decoded ← bool
  let out ← bytes
  let m := parseDoc text
  let feats := s!"nt={if text.length ≥ 8 then 1 else 0} valid={valid} len={if text.length > 200 then 201 else text.length / 20 * 20}"
  match m with
  | none =>
    if valid then return s!"DIFF JSON model-rejects-what-encoding/json-accepts {feats}"
    return s!"OK {feats}"
  | some v =>
    if !valid then return s!"DIFF JSON model-accepts-what-encoding/json-rejects {feats}"
    if !decoded then return s!"OK undecoded=1 {feats}"
    if render (canonMap v) != out then return s!"DIFF JSON render-of-decoded-value-differs {feats}"
    return s!"OK {feats}"

/-! ## C18 end to end: `upgrade <scenario> <coalesced> <k> {bufsize} <toSvc> <toCli> | <gotSvc> <gotCli>` -/

def cmdUpgrade : P String := do
  let scenario ← tok
  let coalesced ← bool
  let sizes ← listOf nat
  let toSvc ← bytes
  let toCli ← bytes
  expect "|"
  let gotSvc ← bytes
  let gotCli ← bytes
  let big := sizes.any (· ≥ 4096)
  let feats := s!"nt={if coalesced then 1 else 0} scenario={scenario} coalesced={coalesced} bigbuf={big} n={if toSvc.length + toCli.length > 4096 then 4097 else (toSvc.length + toCli.length) / 512 * 512}"
  -- stream_exactly_once: what follows the frame is delivered exactly once, in order, whatever the
  -- read sizes and however it was segmented
  if gotSvc != toSvc then
    return s!"DIFF C18 handler-did-not-receive-the-upgraded-payload expected={toSvc.length} got={gotSvc.length} {feats}"
  if gotCli != toCli then
    return s!"DIFF C18 client-did-not-receive-the-upgraded-payload expected={toCli.length} got={gotCli.length} {feats}"
  return s!"OK {feats}"

/-! ## C18 long upgraded streams: `upgradebig <dir> <n> <k> {buf} | <lenSvc> <dSent> <dGot> <lenCli> <dSent> <dGot> <wantSvc> <wantCli>` -/

def cmdUpgradeBig : P String := do
  let dir ← tok
  let n ← nat
  let bufs ← listOf nat
  expect "|"
  let lenSvc ← nat; let dSentSvc ← bytes; let dGotSvc ← bytes
  let lenCli ← nat; let dSentCli ← bytes; let dGotCli ← bytes
  let wantSvc ← nat; let wantCli ← nat
  let feats := s!"nt=1 dir={dir} mib={n / 1048576} bufs={bufs.length}"
  -- stream_exactly_once has no length bound: the stream after the frame is delivered completely and unchanged
  if lenSvc != wantSvc || dSentSvc != dGotSvc then
    return s!"DIFF C18 handler-did-not-receive-the-upgraded-payload expected={wantSvc} got={lenSvc} {feats}"
  if lenCli != wantCli || dSentCli != dGotCli then
    return s!"DIFF C18 client-did-not-receive-the-upgraded-payload expected={wantCli} got={lenCli} {feats}"
  return s!"OK {feats}"

/-! ## scale: `scale <scenario> <n> | <bad> <first>` (one dimension far beyond what the driver replays; oracle evaluated in the harness) -/

def cmdScale : P String := do
  let scen ← tok
  let n ← nat
  expect "|"
  let bad ← nat
  let first ← tok
  let feats := s!"nt=1 scenario={scen} n={if scen == "hugeframe" || scen == "overlap" then n / 1048576 else n}"
  let prop := if scen == "hugeframe" || scen == "overlap" then "C03" else if scen == "closetwice" then "C02"
    else if scen == "resend" then "C17" else if scen == "staleclose" then "C18" else if scen == "reroute" then "C04"
    else if scen == "staleflags" then "C08" else "C01"
  if bad != 0 then
    return s!"DIFF {prop} {scen}-at-scale-{first} bad={bad} {feats}"
  return s!"OK {feats}"

/-! ## C10: `gone <network> <mode> <k> | <ended> <withError> <released> <servingEnded>` — a streaming handler whose peer disappears -/

def cmdGone : P String := do
  let network ← tok
  let mode ← tok
  let k ← nat
  expect "|"
  let ended ← bool; let withErr ← bool; let released ← bool; let servingEnded ← bool
  let feats := s!"nt=1 net={network} mode={mode} k={k}"
  -- the assumption of `gone_peer_handler_progress` at the library boundary: a reply to a peer that is gone fails,
  -- so the handler gets to end; then the accounting of C14 releases the connection and Shutdown ends serving
  if !ended then return s!"DIFF C10 handler-never-learns-that-the-peer-is-gone {feats}"
  if !withErr then return s!"DIFF C10 reply-to-a-gone-peer-does-not-fail {feats}"
  if !released then return s!"DIFF C10 connection-not-released-after-peer-went-away {feats}"
  if !servingEnded then return s!"DIFF C10 serving-call-after-shutdown-hang {feats}"
  return s!"OK {feats}"

/-! ## C17: `connctx <ending> | <live> <cancelled>` — the handler's context is the connection's -/

def cmdConnCtx : P String := do
  let ending ← tok
  expect "|"
  let live ← bool
  let cancelled ← bool
  let second ← bool
  let feats := s!"nt=1 ending={ending}"
  if !second then return s!"DIFF C17 reply-after-an-earlier-reply-under-a-deadline-does-not-arrive {feats}"
  if !live then return s!"DIFF C17 handler-context-cancelled-while-its-connection-is-alive {feats}"
  if !cancelled then return s!"DIFF C17 handler-context-not-cancelled-after-its-connection-ended {feats}"
  return s!"OK {feats}"

/-! ## C17/C18: `duplex <side> <nwrite> <nreply> | <wn> <wok> <early> <equal>` — Read and Write at the same time on an upgraded connection -/

def cmdDuplex : P String := do
  let side ← tok
  let nw ← nat
  let nr ← nat
  expect "|"
  let wn ← nat; let wok ← bool; let early ← bool; let equal ← bool
  let feats := s!"nt=1 side={side} nwrite={nw} nreply={nr}"
  -- each operation has its own helper and its own result (the C17 LTS has one result slot per operation)
  if !wok || wn != nw then return s!"DIFF C17 write-concurrent-with-a-blocked-read-reports-another-result wrote={wn} {feats}"
  if early then return s!"DIFF C17 blocked-read-returned-without-input-when-a-write-completed {feats}"
  if !equal then return s!"DIFF C18 read-concurrent-with-a-write-did-not-deliver-the-peers-bytes {feats}"
  return s!"OK {feats}"

/-! ## C10: `stall <calls> | <established> <fresh> <shutdown> <ended>` — a client that never reads its replies -/

def cmdStall : P String := do
  let calls ← nat
  expect "|"
  let established ← bool; let fresh ← bool; let shut ← bool; let ended ← bool
  let feats := s!"nt=1 calls={if calls > 100000 then 100001 else calls / 10000 * 10000}"
  -- connections are independent (C01 `connections_independent`): what one peer does not read is its own business
  if !established then return s!"DIFF C10 established-connection-starved-by-a-client-that-does-not-read {feats}"
  if !fresh then return s!"DIFF C10 new-connection-starved-by-a-client-that-does-not-read {feats}"
  if !shut then return s!"DIFF C10 shutdown-blocked-by-a-client-that-does-not-read {feats}"
  if !ended then return s!"DIFF C10 serving-did-not-end-after-the-stalled-client-left {feats}"
  return s!"OK {feats}"

/-! ## C02 send side under concurrency: `bigframes <conns> <calls> <procs> | <bad> <first>` (oracle evaluated in the harness) -/

def cmdBigFrames : P String := do
  let conns ← nat
  let calls ← nat
  let procs ← nat
  expect "|"
  let bad ← nat
  let first ← tok
  let feats := s!"nt=1 conns={conns} calls={calls} procs={procs}"
  if bad != 0 then
    return s!"DIFF C02 message-on-the-wire-corrupted-under-concurrent-large-writes bad={bad} first={first} {feats}"
  return s!"OK {feats}"

/-! ## C17 client side: `ctxsplit <scenario> <network> | <outcomes> <prompt> <goroutines-left>` -/

def cmdCtxSplit : P String := do
  let scen ← tok
  let network ← tok
  expect "|"
  let outs ← tok
  let prompt ← bool
  let left ← nat
  -- each operation obeys its own context (C17 LTS: the caller's steps depend on the context of that
  -- operation only); after a cancelled receive nothing is lost for the next operations
  let expected :=
    if scen == "recv-cancel" || scen == "recv-deadline" || scen == "call" then "ctxerr"
    else if scen == "send-ctx-dead" then "ok:1"
    else if scen == "reuse" then "ctxerr,ok:1,ok:2"
    else "?"
  let feats := s!"nt=1 scenario={scen} net={network}"
  if outs != expected then return s!"DIFF C17 client-operation-ignores-its-own-context expected={expected} observed={outs} {feats}"
  if !prompt then return s!"DIFF C17 client-operation-not-unblocked-within-margin {feats}"
  if left > 0 then return s!"DIFF C17 goroutines-left-behind count={left} {feats}"
  return s!"OK {feats}"

/-! ## struct decoding: `jsonstruct call|reply <doc> | <ok> <string field> <hasparams> <params> <b1> <b2> <b3>` -/

def cmdJsonStruct : P String := do
  let kind ← tok
  let doc ← bytes
  expect "|"
  let ok ← bool
  let sfield ← bytes
  let hasParams ← bool
  let params ← bytes
  let b1 ← bool; let b2 ← bool; let b3 ← bool
  let pv : Option JVal := if hasParams then parseDoc params else none
  let feats := s!"nt={if doc.length ≥ 12 then 1 else 0} kind={kind} ok={ok}"
  if kind == "call" then
    match decodeCall doc with
    | none => if ok then return s!"DIFF JSON struct-model-rejects-what-unmarshal-accepts {feats}" else return s!"OK {feats}"
    | some c =>
      -- Go keeps filling fields after a type error; the call is rejected either way, only acceptance is compared then
      if !ok then return s!"DIFF JSON struct-model-accepts-what-unmarshal-rejects {feats}"
      if !(Varlink.sanitize c.method == sfield && optJValBeq (c.params.map JVal.sanitize) pv && c.more == b1 && c.oneway == b2 && c.upgrade == b3) then
        return s!"DIFF JSON struct-call-fields-differ {feats}"
      return s!"OK {feats}"
  else
    match decodeReply doc with
    | none => if ok then return s!"DIFF JSON struct-model-rejects-what-unmarshal-accepts {feats}" else return s!"OK {feats}"
    | some r =>
      if !ok then return s!"DIFF JSON struct-model-accepts-what-unmarshal-rejects {feats}"
      if !(Varlink.sanitize r.error == sfield && optJValBeq (r.params.map JVal.sanitize) pv && r.continues == b1) then
        return s!"DIFF JSON struct-reply-fields-differ {feats}"
      return s!"OK {feats}"

def table : List (String × P String) := [("act", cmdAct), ("atoi", cmdAtoi), ("addr", cmdAddr), ("reg", cmdReg), ("client", cmdClient), ("e2e", cmdE2e), ("abort", cmdAbort), ("connr", cmdConnR), ("jsonself", cmdJsonSelf), ("upgrade", cmdUpgrade), ("upgradebig", cmdUpgradeBig), ("scale", cmdScale), ("gone", cmdGone), ("connctx", cmdConnCtx), ("duplex", cmdDuplex), ("stall", cmdStall), ("bigframes", cmdBigFrames), ("ctxsplit", cmdCtxSplit), ("jsonstruct", cmdJsonStruct)]

end Driver.Misc
