import Varlink
import Driver.Proto
namespace Driver.Misc
open Driver Varlink

def kindOfTok (t : String) : FdKind := if t == "sock" then .listeningSocket else .other

/-- `act <pid> <LISTEN_PID opt> <LISTEN_FDS opt> <LISTEN_FDNAMES opt> <kind fd3> <kind fd4> <kind fd5> | <observed>` -/
def cmdAct : P String := do
  let pid ← nat
  let lp ← optOf bytes
  let fds ← optOf bytes
  let names ← optOf bytes
  let k3 ← tok
  let k4 ← tok
  let k5 ← tok
  expect "|"
  let obs ← tok
  let env : ActEnv := { listenPid := lp, listenFds := fds, listenFdNames := names }
  let kind (fd : Nat) : FdKind :=
    if fd = 3 then kindOfTok k3 else if fd = 4 then kindOfTok k4 else if fd = 5 then kindOfTok k5 else .other
  let sel := selectFd env (pid : Int)
  let exp := match activation env (pid : Int) kind with
    | some fd => s!"fd{fd}"
    | none => "fallback"
  let nfds := (atoi (fds.getD [])).getD 0
  let selS := match sel with | some fd => s!"{fd}" | none => "none"
  let pidOk := atoi (lp.getD []) == some (pid : Int)
  let feats := s!"nt={if nfds ≥ 2 then 1 else 0} pidmatch={pidOk} nfds={if nfds > 3 then 9 else if nfds < 0 then -1 else nfds} names={names.isSome} selected={selS} expected={exp}"
  if obs == exp then return s!"OK {feats}"
  else return s!"DIFF C20 served={obs} expected={exp} {feats}"

/-- `atoi <bytes> | <ok 0/1> <value as decimal text, sign included>` : model of strconv.Atoi vs the real one -/
def cmdAtoi : P String := do
  let s ← bytes
  expect "|"
  let ok ← bool
  let v ← tok
  let m := atoi s
  let ms := match m with | some i => s!"{i}" | none => "err"
  let os := if ok then v else "err"
  let feats := s!"nt={if s.length ≥ 2 then 1 else 0} len={if s.length > 20 then 21 else s.length} res={if m.isSome then "ok" else "err"}"
  if ms == os then return s!"OK {feats}" else return s!"DIFF C20 atoi model={ms} real={os} {feats}"

def table : List (String × P String) := [("act", cmdAct), ("atoi", cmdAtoi)]

end Driver.Misc
