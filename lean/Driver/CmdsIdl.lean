/-
  Driver commands for the IDL parser (properties C05, C06, C09): `idl`, `idlname`.

  `idl x<text> <hasExpected> [<tree>] <ntags> <tag>… | ok <tree> x<description> <sublistsOK> | err x<msg> | panic x<msg> | hang`
  (all harness streams `idl`, `idlmut`, `idltot` write this line format)

  For every case the driver
  (a) runs the model parser `Varlink.Idl.New` on the text and compares outcome, error site and the full tree
      (name, interface doc, description, every member in order with its doc and types) with the observation;
  (b) evaluates the oracles on the OBSERVATION alone (independent of the model parser):
      C09 — the real parser returned (no panic, no hang);
      C06 — if it accepted: `strip text = strip (print tree)`, member names unique, at least one method, no
            optional of an optional, every field list homogeneous;
      C05 — if the generator supplied the tree the text was rendered from: accepted with exactly that tree,
            documentation = the comment block above each member, description verbatim, sub-lists consistent.
            Every layout of the generator is inside the grammar — also line breaks and comments between an error's
            name and its parameter list and members that share a line: a rejection is a disagreement.
-/
import Varlink.Idl.Parser
import Varlink.Idl.Printer
import Driver.Proto
namespace Driver.IdlCmd
open Varlink Varlink.Idl Driver

/-! ## reading trees from the line -/

mutual
partial def tyP : P Ty := do
  let t ← tok
  match t with
  | "b" => pure .bool
  | "i" => pure .int
  | "f" => pure .float
  | "s" => pure .string
  | "o" => pure .object
  | "n" => do let n ← bytes; pure (.named n)
  | "q" => do let e ← tyP; pure (.maybe e)
  | "a" => do let e ← tyP; pure (.array e)
  | "d" => do let e ← tyP; pure (.map e)
  | "S" => do let k ← nat; let fs ← fieldsP k; pure (.struct fs)
  | "E" => do let k ← nat; let fs ← fieldsP k; pure (.enum fs)
  | "X" => throw "unrepresentable"
  | _ => throw s!"bad type token {t}"
partial def fieldsP (k : Nat) : P Fields := do
  if k = 0 then pure .nil else
  let n ← bytes
  let has ← nat
  if has = 0 then
    let r ← fieldsP (k - 1)
    pure (.bare n r)
  else
    let t ← tyP
    let r ← fieldsP (k - 1)
    pure (.typed n t r)
end

def memberP : P Member := do
  let k ← tok
  let n ← bytes
  let d ← bytes
  match k with
  | "A" => do let t ← tyP; pure (.alias n d t)
  | "M" => do let i ← tyP; let o ← tyP; pure (.method n d i o)
  | "R" => do
    let has ← nat
    if has = 0 then pure (.error n d none) else do let t ← tyP; pure (.error n d (some t))
  | "X" => throw "unrepresentable"
  | _ => throw s!"bad member token {k}"

/-- name, doc, members -/
def treeP : P Idl := do
  let name ← bytes
  let doc ← bytes
  let ms ← listOf memberP
  pure { name, doc, description := [], members := ms }

inductive Obs where
  | ok (t : Idl) (sub : Bool)
  | err (msg : Bytes)
  | panic (msg : Bytes)
  | hang

def obsP : P Obs := do
  let k ← tok
  match k with
  | "ok" => do
    let t ← treeP
    let desc ← bytes
    let sub ← bool
    pure (.ok { t with description := desc } sub)
  | "err" => do let m ← bytes; pure (.err m)
  | "panic" => do let m ← bytes; pure (.panic m)
  | "hang" => pure .hang
  | _ => throw s!"bad observation {k}"

/-! ## error sites -/

def errPrefix : PErr → String
  | .missingInterfaceKeyword => "missing interface keyword"
  | .interfaceName => "interface name"
  | .missingTypeName => "missing type name"
  | .missingTypeDeclaration => "missing type declaration"
  | .missingMethodType => "missing method type"
  | .missingMethodInput => "missing method input"
  | .missingArrow => "missing method '->' operator"
  | .missingMethodOutput => "missing method output"
  | .missingErrorName => "missing error name"
  | .invalidErrorType => "invalid error type"
  | .typeAlreadyDefined => "type `"
  | .methodAlreadyDefined => "method `"
  | .errorAlreadyDefined => "error `"
  | .unknownKeyword => "unknown keyword '"
  | .noMethods => "no methods defined"

def errTag : PErr → String
  | .missingInterfaceKeyword => "nointerface"
  | .interfaceName => "ifacename"
  | .missingTypeName => "notypename"
  | .missingTypeDeclaration => "notypedecl"
  | .missingMethodType => "nomethodname"
  | .missingMethodInput => "nomethodin"
  | .missingArrow => "noarrow"
  | .missingMethodOutput => "nomethodout"
  | .missingErrorName => "noerrorname"
  | .invalidErrorType => "baderrortype"
  | .typeAlreadyDefined => "duptype"
  | .methodAlreadyDefined => "dupmethod"
  | .errorAlreadyDefined => "duperror"
  | .unknownKeyword => "unknownkw"
  | .noMethods => "nomethods"

def isPrefixOf : Bytes → Bytes → Bool
  | [], _ => true
  | _, [] => false
  | a :: as, b :: bs => a == b && isPrefixOf as bs

/-! ## oracles on the observation -/

/-- C06 on an accepted tree: first failing clause, if any -/
def c06Failure (text : Bytes) (t : Idl) : Option String :=
  if strip text != strip (print t) then some "accepted-with-text-unaccounted"
  else if !t.uniqueMemberNames then some "accepted-duplicate-member-names"
  else if t.methods.length = 0 then some "accepted-without-method"
  else if !t.noMaybeMaybe then some "accepted-maybe-of-maybe"
  else if !t.homogeneous then some "accepted-mixed-field-list"
  else none

def firstMemberDiff : List Member → List Member → Option String
  | [], [] => none
  | a :: as, b :: bs =>
    if !(a.beqNoDoc b) then some "wrong-member(kind-name-type-or-order)" else firstMemberDiff as bs
  | _, _ => some "wrong-member-count"

def docsEqual : List Member → List Member → Bool
  | a :: as, b :: bs => a.doc == b.doc && docsEqual as bs
  | _, _ => true

/-- C05: the observation against the tree the text was rendered from -/
def c05Failure (text : Bytes) (exp : Idl) (tags : List String) (o : Obs) : Option String :=
  match o with
  | .ok t sub =>
    if t.name != exp.name then some "wrong-interface-name"
    else match firstMemberDiff exp.members t.members with
      | some r => some r
      | none =>
        if !docsEqual exp.members t.members then some "wrong-member-doc"
        else if t.doc != exp.doc then some "wrong-interface-doc"
        else if t.description != text then some "description-not-verbatim"
        else if !sub then some "sublists-inconsistent-with-members"
        else none
  | _ =>
    -- every layout the generator produces is inside the grammar and must be accepted; the reason names the layout
    -- class around an error's name if there is one (the two classes idl.go rejected up to /repo a1069ea)
    if tags.any (fun t => t == "g6=nl" || t == "g6=cr" || t == "g6=comment") then
      some "rejected-layout-error-type-on-next-line"
    else if tags.contains "g3err=inline" then some "rejected-layout-member-after-typeless-error-on-same-line"
    else if tags.any (fun t => t.startsWith "errend=") then some "rejected-layout-typeless-error-at-end-of-text"
    else some "rejected-grammar-conformant-description"

def sizeBucket (n : Nat) : String :=
  if n < 16 then "lt16" else if n < 64 then "lt64" else if n < 256 then "lt256" else if n < 4096 then "lt4k" else "ge4k"

def typeNodes (t : Idl) : Nat := (t.members.map fun m => (m.types.map Ty.size).sum).sum

/-- `idl …` -/
def cmdIdl : P String := do
  let text ← bytes
  let hasExp ← bool
  let expTree ← if hasExp then (do let t ← treeP; pure (some t)) else pure none
  let tags ← listOf tok
  expect "|"
  let obs? : Option Obs ← tryCatch (do let o ← obsP; pure (some o)) (fun e =>
    if e = "unrepresentable" then pure none else throw e)
  let tagStr := " ".intercalate tags
  let model := New text
  let modelStr := match model with
    | .ok _ => "ok" | .err e => "err-" ++ errTag e | .panic => "panic" | .outOfFuel => "outoffuel"
  let nt : Nat := match expTree with
    | some e => if typeNodes e ≥ 3 then 1 else 0
    | none => if tags.any (fun t => t.startsWith "mut=") then 1 else 0
  let feats := s!"nt={nt} model={modelStr} size={sizeBucket text.length} {tagStr}"
  match obs? with
  | none => return s!"DIFF C05 returned-tree-outside-documented-shapes {feats}"
  | some obs =>
  -- C09 oracle
  match obs with
  | .panic _ => return s!"DIFF C09 panic {feats}"
  | .hang => return s!"DIFF C09 hang {feats}"
  | _ =>
  -- model vs implementation
  let mismatch : Option String := match model, obs with
    | .ok m, .ok t _ =>
      if m.name != t.name then some "name"
      else if m.doc != t.doc then some "interface-doc"
      else if m.description != t.description then some "description"
      else if m.members.length != t.members.length then some "member-count"
      else if !(membersBeq m.members t.members) then
        (if (firstMemberDiff m.members t.members).isSome then some "members" else some "member-doc")
      else none
    | .err e, .err msg => if isPrefixOf (errPrefix e).toUTF8.toList msg then none else some ("error-site-" ++ errTag e)
    | .ok _, .err _ => some "model-accepts-code-rejects"
    | .err _, .ok _ _ => some "model-rejects-code-accepts"
    | .panic, _ => some "model-panics"
    | .outOfFuel, _ => some "model-out-of-fuel"
    | _, _ => some "outcome"
  match mismatch with
  | some r => return s!"DIFF C05 model-mismatch-{r} {feats}"
  | none =>
  -- C06 oracle
  match obs with
  | .ok t _ =>
    match c06Failure text t with
    | some r => return s!"DIFF C06 {r} {feats}"
    | none => pure ()
  | _ => pure ()
  -- C05 oracle
  match expTree with
  | some e =>
    match c05Failure text e tags obs with
    | some r => return s!"DIFF C05 {r} {feats}"
    | none => pure ()
  | none => pure ()
  return s!"OK {feats}"

/-- `idlname x<bytes> | <len dnrx match> <len xdnrx match>` -/
def cmdIdlName : P String := do
  let s ← bytes
  expect "|"
  let n1 ← nat
  let n2 ← nat
  let m1 := matchDn s
  let m2 := matchXdn s
  let nt := if s.contains 46 && s.length ≥ 3 then 1 else 0
  let feats := s!"nt={nt} dn={if n1 = 0 then "nomatch" else if n1 = s.length then "full" else "prefix"} xdn={if n2 = 0 then "nomatch" else if n2 = s.length then "full" else "prefix"} size={sizeBucket s.length}"
  if m1 != n1 then return s!"DIFF C05 model-mismatch-interface-name-regexp-1 model={m1} regexp={n1} {feats}"
  if m2 != n2 then return s!"DIFF C05 model-mismatch-interface-name-regexp-2 model={m2} regexp={n2} {feats}"
  return s!"OK {feats}"

def table : List (String × P String) := [("idl", cmdIdl), ("idlname", cmdIdlName)]

end Driver.IdlCmd
