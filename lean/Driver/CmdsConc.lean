/-
  Driver commands for C16 (`race`: classification of race-detector runs) and C17 (`cancel`: traces of
  the real ctxio.Conn against the transition system, bytes against the data model, real transports).
-/
import Varlink.Race
import Varlink.Ctxio
import Driver.Proto
namespace Driver.Conc
open Varlink Varlink.Race Varlink.Ctxio Varlink.Extracted

/-! ### C16 -/

/-- entry function of the Service that an operation of a race scenario exercises -/
def opFn (op : String) : Option Fn :=
  if op = "listen" then some .Listen
  else if op = "dolisten" then some .DoListen
  else if op = "shutdown" then some .Shutdown
  else if op = "getlistener" then some .GetListener
  else if op = "register" then some .RegisterInterface
  else if op = "clients" then some .handleConnection
  else if op = "ctxcancel" then some .handleConnection
  else none

/-- ctxio operation an element of a race scenario exercises -/
def opCx (op : String) : List String :=
  if op = "cancelread" then ["Read", "ReadBytes"]        -- reuse reads a frame and raw bytes afterwards
  else if op = "cancelreadbytes" then ["ReadBytes", "Read"]
  else if op = "cancelwrite" then ["Write"]
  else if op = "reuse" then ["ReadBytes", "Read"]
  else if op = "clients" then ["Write", "ReadBytes"]
  else if op = "ctxcancel" then ["ReadBytes"]
  else []

/-- the static side covers the ctxio operation: its skeleton joins the helper on every exit -/
def cxCovered (name : String) : Bool :=
  ctxioOps.any fun op => op.name = name && armJoined false op.cancelArm && armJoined false op.doneArm && skeletonShape op

def pairs {α} : List α → List (α × α)
  | [] => []
  | a :: r => r.map (fun b => (a, b)) ++ pairs r

def joinWith (sep : String) : List String → String
  | [] => ""
  | [a] => a
  | a :: r => a ++ sep ++ joinWith sep r

/-- `race <base> <nops> <ops…> <reps> <k> <tcp> <early> <timeout> | <status> <eff> <nreports> {<class> <ownerA> <ownerB> <stacks>}` -/
def cmdRace : P String := do
  let base ← tok
  let ops ← listOf tok
  let reps ← nat
  let k ← nat
  let tcp ← nat
  let early ← nat
  let timeout ← nat
  expect "|"
  let status ← tok
  let eff ← tok
  let reports ← listOf (do
    let cls ← tok; let a ← tok; let b ← tok; let _stack ← bytes; pure (cls, a, b))
  let feats := s!"nt={if ops.length ≥ 2 then 1 else 0} base={base} ops={joinWith "+" ops} nops={ops.length} reps={reps} k={k} tcp={tcp} early={early} acctimeout={if timeout > 0 then 1 else 0} eff={eff}"
  -- every exercised pair has to be one the table covers
  let all := base :: ops
  for o in all do
    if (opFn o).isNone && (opCx o).isEmpty then return s!"DIFF C16 unknown-operation-{o} {feats}"
  let fns := all.filterMap opFn
  for (f, g) in pairs fns do
    if !(mayOverlap serviceAccesses f g) && !(f == g) then
      return s!"DIFF C16 pair-not-covered-by-the-access-table-{f.goName}-{g.goName} {feats}"
  for o in all do
    for c in opCx o do
      if !cxCovered c then return s!"DIFF C16 ctxio-operation-not-joined-in-the-skeleton-{c} {feats}"
  if status ≠ "ok" then return s!"DIFF C16 scenario-{status} {feats}"
  match reports with
  | [] => return s!"OK {feats}"
  | (cls, a, b) :: _ =>
    if cls = "harness" then return s!"DIFF C16 harness-race-{a}-{b} reports={reports.length} {feats}"
    return s!"DIFF C16 race-{a}-{b} class={cls} reports={reports.length} {feats}"

/-- the enabling condition of `Tables.Step.regEnter` with the counter check in place -/
def regEnterEnabled (running : Bool) (cc : Nat) : Bool := !running && cc == 0

/-- `regguard <actions…> | <status> {<running> <conncounter> <accepted>}` -/
def cmdRegGuard : P String := do
  let acts ← listOf tok
  expect "|"
  let status ← tok
  let obs ← listOf (do let r ← bool; let c ← nat; let a ← bool; pure (r, c, a))
  let draining := obs.any fun (r, c, _) => !r && c > 0
  let feats := s!"nt={if obs.length ≥ 1 && acts.length ≥ 3 then 1 else 0} acts={acts.length} attempts={obs.length} accepted={(obs.filter (·.2.2)).length} draining={draining}"
  if status ≠ "ok" then return s!"DIFF C16 regguard-{status} {feats}"
  for (r, c, a) in obs do
    if a && !(regEnterEnabled r c) then
      return s!"DIFF C16 register-accepted-while-{if r then "running" else "handlers-alive"} running={r} conncounter={c} {feats}"
    if !a && regEnterEnabled r c then
      return s!"DIFF C16 register-refused-on-idle-service {feats}"
  return s!"OK {feats}"

/-! ### C17 -/

structure OpSpec where
  kind : Char        -- 'r' raw read, 'f' frame read, 'w' write
  n : Nat
  ctx : String       -- live | cancel | deadline
  instant : String
  deriving Repr

def opSpecP : P OpSpec := do
  let t ← tok
  let ctx ← tok
  let instant ← tok
  match t.toList with
  | k :: ds =>
    match (String.ofList ds).toNat? with
    | some n => pure { kind := k, n := n, ctx := ctx, instant := instant }
    | none => throw s!"bad op {t}"
  | [] => throw "empty op"

def cxOpOf (k : Char) : CxOp :=
  if k = 'f' then ctxioReadBytesOp else if k = 'w' then ctxioWriteOp else ctxioReadOp

/-- labels recorded by the tracing connection -/
def labelOf (kind : Char) (t : String) : Option Label :=
  let side : Char := if kind = 'w' then 'W' else 'R'
  match t.toList with
  | ['c'] => some .ioCall
  | ['r', '0'] => some (.ioRet .ok)
  | ['r', '1'] => some (.ioRet .eof)
  | ['r', '2'] => some (.ioRet .timeout)
  | ['r', '3'] => some (.ioRet .err)
  | [s, 'd', '0'] => if s = side then some (.setDl .none) else none
  | [s, 'd', '1'] => if s = side then some (.setDl .future) else none
  | [s, 'd', '2'] => if s = side then some (.setDl .past) else none
  | _ =>
    if t = "Rok" then some (.ret (.result .ok))
    else if t = "Reof" then some (.ret (.result .eof))
    else if t = "Rtimeout" then some (.ret (.result .timeout))
    else if t = "Rerr" then some (.ret (.result .err))
    else if t = "Rcancelled" then some (.ret (.ctxErr .cancelled))
    else if t = "Rexpired" then some (.ret (.ctxErr .expired))
    else none

structure OpObs where
  trace : List String
  out : Bytes
  gdelta : Nat
  stuck : Bool

def opObsP : P OpObs := do
  let trace ← listOf tok
  let out ← bytes
  let gdelta ← nat
  let stuck ← bool
  pure { trace, out, gdelta, stuck }

def lastIoRet : List Label → Option IoRes
  | [] => none
  | .ioRet r :: rest => (match lastIoRet rest with | some x => some x | none => some r)
  | _ :: rest => lastIoRet rest

def countOk (ls : List Label) : Nat := (ls.filter (· == .ioRet .ok)).length

def retOf : List Label → Option Ret
  | [] => none
  | .ret r :: _ => some r
  | _ :: rest => retOf rest

/-- how the data model has to treat the operation, from what was observed -/
def outcomeOf (ls : List Label) : Outcome :=
  match retOf ls with
  | some (.result .ok) => .live
  | some (.result .eof) => .live
  | some (.result _) => .timedOut (countOk ls)
  | _ =>
    match lastIoRet ls with
    | some .timeout => .cancelledTimeout (countOk ls)
    | some .err => .cancelledTimeout (countOk ls)
    | _ => .cancelledDone

def outcomeStr : Outcome → String
  | .live => "live" | .cancelledDone => "cancelled-done" | .cancelledTimeout _ => "cancelled-blocked" | .timedOut _ => "timed-out"

def cmdCancelTrace : P String := do
  let honours ← bool
  let segs ← listOf bytes
  let ops ← listOf opSpecP
  expect "|"
  let obs ← listOf opObsP
  if obs.length ≠ ops.length then return "DIFF C17 harness-observation-count"
  let cancelled := ops.filter (fun o => o.ctx ≠ "live")
  let c0 : OpSpec := cancelled.headD { kind := 'f', n := 0, ctx := "live", instant := "-" }
  let blockedish := c0.instant = "blocked" || c0.instant = "partial"
  let mut outcomes : List (ROp × Outcome) := []
  let mut ocs : List String := []
  let mut stuckAny := false
  for (o, ob) in ops.zip obs do
    let cfg := cfgOf (cxOpOf o.kind) honours (o.ctx = "deadline")
    let tag := s!"{o.kind}-{o.ctx}-{o.instant}"
    let mut labels : List Label := []
    for t in ob.trace do
      match labelOf o.kind t with
      | some l => labels := labels ++ [l]
      | none => return s!"DIFF C17 unexpected-event-{t}-in-{tag} honours={honours}"
    if !(accepts cfg labels) then
      return s!"DIFF C17 trace-not-accepted-by-the-transition-system-{tag} honours={honours} trace={joinWith "," ob.trace}"
    if ob.gdelta ≠ 0 then return s!"DIFF C17 goroutine-left-behind-{tag} honours={honours} extra={ob.gdelta}"
    if ob.stuck && honours then return s!"DIFF C17 cancel-did-not-unblock-{tag} honours={honours}"
    if ob.stuck then stuckAny := true
    let r := retOf labels
    if o.ctx = "live" then
      match r with
      | some (.result _) => pure ()
      | _ => return s!"DIFF C17 live-context-operation-returned-context-error-{tag}"
    if honours && o.ctx ≠ "live" && (o.instant = "blocked" || o.instant = "partial") then
      match r with
      | some (.ctxErr _) => pure ()
      | some (.result .timeout) => pure ()
      | _ => return s!"DIFF C17 blocked-cancelled-operation-did-not-report-context-or-timeout-error-{tag}"
    let oc := outcomeOf labels
    ocs := ocs ++ [outcomeStr oc]
    outcomes := outcomes ++ [((if o.kind = 'f' then ROp.frame else ROp.raw o.n), oc)]
  let feats := s!"nt={if blockedish then 1 else 0} kind={c0.kind} ctx={c0.ctx} instant={c0.instant} honours={honours} stuck={stuckAny} nops={ops.length} outcome={(((ops.zip ocs).filter (fun x => x.1.ctx ≠ "live")).map (·.2)).headD "none"}"
  if ops.any (fun o => o.kind = 'w') then
    -- writes: control only; the follow-up write with a live context has to succeed
    for (o, ob) in ops.zip obs do
      if o.ctx = "live" && !(ob.trace.getLast? == some "Rok") then
        return s!"DIFF C17 follow-up-write-failed {feats}"
    return s!"OK {feats}"
  let (es, _, _) := runSeq 4096 outcomes {} segs
  for (e, ob) in es.zip obs do
    match e with
    | .out bs => if bs ≠ ob.out then return s!"DIFF C17 bytes-differ-from-the-model(lost-duplicated-or-reordered) {feats}"
    | .drop _ => if !ob.out.isEmpty then return s!"DIFF C17 cancelled-operation-returned-bytes {feats}"
  return s!"OK {feats}"

def cmdCancelX : P String := do
  let transport ← tok
  let api ← tok
  let mode ← tok
  expect "|"
  let verdict ← tok
  let ec ← tok
  let gdelta ← nat
  let reuse ← tok
  let feats := s!"nt=1 transport={transport} api={api} ctx={mode} err={ec} reuse={reuse}"
  if verdict ≠ "fast" then return s!"DIFF C17 not-unblocked-within-margin-{transport}-{api}-{mode}-{verdict} {feats}"
  if ec ≠ "ctx" && ec ≠ "timeout" then return s!"DIFF C17 wrong-error-{transport}-{api}-{mode}-{ec} {feats}"
  if gdelta ≠ 0 then return s!"DIFF C17 goroutine-left-behind-{transport}-{api}-{mode} extra={gdelta} {feats}"
  if reuse = "fail" then return s!"DIFF C17 reuse-after-cancel-failed-{transport}-{api}-{mode} {feats}"
  return s!"OK {feats}"

/-- `cancel t …` (tracing connection) | `cancel x …` (real transports) -/
def cmdCancel : P String := do
  let which ← tok
  if which = "t" then cmdCancelTrace
  else if which = "x" then cmdCancelX
  else throw s!"unknown cancel case {which}"

def table : List (String × P String) := [("race", cmdRace), ("regguard", cmdRegGuard), ("cancel", cmdCancel)]

end Driver.Conc
