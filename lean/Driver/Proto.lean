/-
  Line protocol helpers for `vdriver`: tokens are separated by single spaces;
  byte strings are `x` followed by lower-case hex; numbers are decimal.
-/
import Varlink.Basic
namespace Driver
open Varlink

def hexNib (c : Char) : Option Nat :=
  if '0' ≤ c && c ≤ '9' then some (c.toNat - 48)
  else if 'a' ≤ c && c ≤ 'f' then some (c.toNat - 87)
  else none

def hexDecodeChars : List Char → Option Bytes
  | [] => some []
  | a :: b :: r =>
    match hexNib a, hexNib b, hexDecodeChars r with
    | some x, some y, some t => some ((x * 16 + y).toUInt8 :: t)
    | _, _, _ => none
  | _ => none

def nibChar (n : Nat) : Char := if n < 10 then Char.ofNat (48 + n) else Char.ofNat (87 + n)

def hexEncode (bs : Bytes) : String :=
  String.ofList (bs.foldr (fun b acc => nibChar (b.toNat / 16) :: nibChar (b.toNat % 16) :: acc) [])

def encB (bs : Bytes) : String := "x" ++ hexEncode bs

/-- token reader -/
abbrev P := StateT (List String) (Except String)

def tok : P String := do
  match (← get) with
  | [] => throw "unexpected end of line"
  | t :: r => set r; pure t

def nat : P Nat := do
  let t ← tok
  match t.toNat? with
  | some n => pure n
  | none => throw s!"expected number, got {t}"

/-- a decimal integer, possibly negative (white-box counters can go below zero in a broken implementation) -/
def int : P Int := do
  let t ← tok
  match t.toInt? with
  | some n => pure n
  | none => throw s!"expected integer, got {t}"

def bytes : P Bytes := do
  let t ← tok
  match t.toList with
  | 'x' :: r =>
    match hexDecodeChars r with
    | some b => pure b
    | none => throw s!"bad hex {t}"
  | _ => throw s!"expected bytes, got {t}"

def bool : P Bool := do
  let n ← nat
  pure (n ≠ 0)

def listOf {α} (p : P α) : P (List α) := do
  let n ← nat
  let rec go : Nat → P (List α)
    | 0 => pure []
    | k + 1 => do let a ← p; let r ← go k; pure (a :: r)
  go n

def optOf {α} (p : P α) : P (Option α) := do
  let n ← nat
  if n = 0 then pure none else do let a ← p; pure (some a)

def expect (s : String) : P Unit := do
  let t ← tok
  if t = s then pure () else throw s!"expected {s}, got {t}"

def atEnd : P Bool := do pure (← get).isEmpty

end Driver
