import Varlink
import Varlink.Extracted.Wire
import Varlink.Extracted.Ctxio
import Driver.Proto
namespace Driver
open Varlink

def registryP : P Registry := do
  let vendor ← bytes
  let product ← bytes
  let version ← bytes
  let url ← bytes
  let ifaces ← listOf (do let n ← bytes; let d ← bytes; pure (n, d))
  pure { vendor, product, version, url, ifaces }

def endingStr : ConnEnd → String
  | .eof => "eof" | .badFrame => "badframe" | .handlerError => "handlererror"

def listBeq {α} (f : α → α → Bool) : List α → List α → Bool
  | [], [] => true
  | a :: as, b :: bs => f a b && listBeq f as bs
  | _, _ => false

/-- `conn <registry> <request stream> | <reply stream> <dispatch log>` -/
def cmdConn : P String := do
  let reg ← registryP
  let stream ← bytes
  expect "|"
  let replies ← bytes
  let log ← listOf (do
    let i ← bytes; let m ← bytes; let rs ← listOf bool; pure (i, m, rs))
  let (frames, _tail) := splitOnNul stream
  let t := connLoop reg scriptedBehaviour frames
  let (obsFrames, obsTail) := splitOnNul replies
  let nt := if frames.length ≥ 2 || t.dispatched.any (fun d => d.2.2.length ≥ 2) then 1 else 0
  let feats := s!"nt={nt} calls={frames.length} handled={t.handled} frames={t.frames.length} disp={t.dispatched.length} end={endingStr t.ending}"
  -- C02 oracle on what was observed: every message one JSON object + NUL, nothing after the last NUL
  if !obsTail.isEmpty then return s!"DIFF C02 trailing-bytes-without-nul {feats}"
  let parsed := obsFrames.map readReplyFrame
  if parsed.any Option.isNone then return s!"DIFF C02 reply-not-a-reply-object {feats}"
  let obs := parsed.filterMap id
  let exp := t.frames.map ReplyFrame.sanitize
  if !listBeq ReplyFrame.beq exp obs then
    return s!"DIFF C01 frames expected={exp.length} observed={obs.length} {feats}"
  let expLog := t.dispatched.map fun (i, m, rs) => (i, m, rs.map ActResult.isErr)
  if !listBeq (fun (a : Bytes × Bytes × List Bool) b => a.1 == b.1 && a.2.1 == b.2.1 && a.2.2 == b.2.2) expLog log then
    return s!"DIFF C01 dispatch-log expected={expLog.length} observed={log.length} {feats}"
  return s!"OK {feats}"

/-- which object the raw `Read` of ctxio.Conn uses, from the regenerated facts -/
def extractedReadPath : ReadPath :=
  if Varlink.Extracted.ctxioReadTarget.1 == "reader" then .buffered else .direct

def ropP : P ROp := do
  let t ← tok
  match t.toList with
  | ['f'] => pure .frame
  | 'r' :: ds =>
    match (String.ofList ds).toNat? with
    | some n => pure (.raw n)
    | none => throw s!"bad op {t}"
  | _ => throw s!"bad op {t}"

def isPrefixB : Bytes → Bytes → Bool
  | [], _ => true
  | _, [] => false
  | a :: as, b :: bs => a == b && isPrefixB as bs

/-- `ctxio <segments> <ops> | <outputs>` -/
def cmdCtxio : P String := do
  let segs ← listOf bytes
  let ops ← listOf ropP
  expect "|"
  let outs ← listOf bytes
  let stream := segs.flatten
  let crossing := segs.length ≥ 2 || (splitOnNul stream).1.length ≥ 2
  let hasRaw := ops.any (fun o => o != .frame)
  let hasFrame := ops.any (fun o => o == .frame)
  let feats := s!"nt={if crossing && ops.length ≥ 1 then 1 else 0} segs={segs.length} ops={ops.length} mix={if hasRaw && hasFrame then 1 else 0} path={if extractedReadPath == .buffered then "buffered" else "direct"}"
  -- oracle (C18/C02): what the operations returned, concatenated, is a prefix of what the peer sent
  if !isPrefixB outs.flatten stream then
    return s!"DIFF C18 returned-bytes-are-not-a-prefix-of-the-stream(lost-or-reordered) {feats}"
  let (exp, _, _) := runOps 4096 extractedReadPath ops {} segs
  if exp != outs then
    return s!"DIFF C18 model-mismatch {feats}"
  return s!"OK {feats}"

/-- command table of this module; `Driver.Main` concatenates the tables of all `Driver/Cmds*.lean` -/
def table : List (String × P String) := [("conn", cmdConn), ("ctxio", cmdCtxio)]

end Driver
