/-
  Driver commands for the interface generator (C07):
    gentext <idl>            → `T x<model text>` | `CRASH`       (used by the harness before it observes)
    gen <idl> | <obs…>       → verdict
  `<idl>` is the tree the REAL `idl.New` returned, serialised by harness/gen.go:
    x<name> x<doc> x<description> <n> <member>*n
    member := A x<name> x<doc> <ty> | M x<name> x<doc> <ty> <ty> | R x<name> x<doc> (0 | 1 <ty>)
    ty     := b | i | f | s | o | n x<alias> | m <ty> | a <ty> | d <ty> | S <n> <field>*n | E <n> <field>*n
    field  := T x<name> <ty> | B x<name>
-/
import Varlink.Gen.Generator
import Driver.Proto
namespace Driver.Gen
open Varlink Varlink.Idl Varlink.Gen Driver

mutual
partial def tyP : P Ty := do
  let t ← tok
  match t with
  | "b" => pure .bool
  | "i" => pure .int
  | "f" => pure .float
  | "s" => pure .string
  | "o" => pure .object
  | "n" => do let n ← bytes; pure (.named n)
  | "m" => do let e ← tyP; pure (.maybe e)
  | "a" => do let e ← tyP; pure (.array e)
  | "d" => do let e ← tyP; pure (.map e)
  | "S" => do let n ← nat; let fs ← fieldsP n; pure (.struct fs)
  | "E" => do let n ← nat; let fs ← fieldsP n; pure (.enum fs)
  | _ => throw s!"bad type token {t}"
partial def fieldsP (n : Nat) : P Fields := do
  if n = 0 then pure .nil else
  let t ← tok
  match t with
  | "T" => do let nm ← bytes; let ty ← tyP; let r ← fieldsP (n - 1); pure (.typed nm ty r)
  | "B" => do let nm ← bytes; let r ← fieldsP (n - 1); pure (.bare nm r)
  | _ => throw s!"bad field token {t}"
end

def memberP : P Member := do
  let t ← tok
  match t with
  | "A" => do let n ← bytes; let d ← bytes; let ty ← tyP; pure (.alias n d ty)
  | "M" => do let n ← bytes; let d ← bytes; let i ← tyP; let o ← tyP; pure (.method n d i o)
  | "R" => do let n ← bytes; let d ← bytes; let ty ← optOf tyP; pure (.error n d ty)
  | _ => throw s!"bad member token {t}"

def idlP : P Idl := do
  let name ← bytes
  let doc ← bytes
  let description ← bytes
  let members ← listOf memberP
  pure { name, doc, description, members }

/-- `gentext <idl>` -/
def cmdGenText : P String := do
  let t ← idlP
  match genText t with
  | .ok s => pure s!"T {encB s}"
  | .crash => pure "CRASH"

/-- command table of this module -/
def table : List (String × P String) := [("gentext", cmdGenText)]

end Driver.Gen
