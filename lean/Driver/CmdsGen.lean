/-
  Driver commands for the interface generator (C07):
    gentext <idl>            → `T x<model text>` | `CRASH`       (used by the harness before it observes)
    gen <idl> | <obs…>       → verdict
  `<idl>` is the tree the REAL `idl.New` returned, serialised by harness/gen.go:
    x<name> x<doc> x<description> <n> <member>*n
    member := A x<name> x<doc> <ty> | M x<name> x<doc> <ty> <ty> | R x<name> x<doc> (0 | 1 <ty>)
    ty     := b | i | f | s | o | n x<alias> | m <ty> | a <ty> | d <ty> | S <n> <field>*n | E <n> <field>*n
    field  := T x<name> <ty> | B x<name>
-/
import Varlink.Gen.View
import Varlink.Gen.Check
import Varlink.Gen.Domain
import Driver.Proto
namespace Driver.Gen
open Varlink Varlink.Idl Varlink.Gen Driver

mutual
partial def tyP : P Ty := do
  let t ← tok
  match t with
  | "b" => pure .bool
  | "i" => pure .int
  | "f" => pure .float
  | "s" => pure .string
  | "o" => pure .object
  | "n" => do let n ← bytes; pure (.named n)
  | "m" => do let e ← tyP; pure (.maybe e)
  | "a" => do let e ← tyP; pure (.array e)
  | "d" => do let e ← tyP; pure (.map e)
  | "S" => do let n ← nat; let fs ← fieldsP n; pure (.struct fs)
  | "E" => do let n ← nat; let fs ← fieldsP n; pure (.enum fs)
  | _ => throw s!"bad type token {t}"
partial def fieldsP (n : Nat) : P Fields := do
  if n = 0 then pure .nil else
  let t ← tok
  match t with
  | "T" => do let nm ← bytes; let ty ← tyP; let r ← fieldsP (n - 1); pure (.typed nm ty r)
  | "B" => do let nm ← bytes; let r ← fieldsP (n - 1); pure (.bare nm r)
  | _ => throw s!"bad field token {t}"
end

def memberP : P Member := do
  let t ← tok
  match t with
  | "A" => do let n ← bytes; let d ← bytes; let ty ← tyP; pure (.alias n d ty)
  | "M" => do let n ← bytes; let d ← bytes; let i ← tyP; let o ← tyP; pure (.method n d i o)
  | "R" => do let n ← bytes; let d ← bytes; let ty ← optOf tyP; pure (.error n d ty)
  | _ => throw s!"bad member token {t}"

def idlP : P Idl := do
  let name ← bytes
  let doc ← bytes
  let description ← bytes
  let members ← listOf memberP
  pure { name, doc, description, members }

/-! ## rendering of the `GoFile` view, the format of harness/gensummary.go -/

def joinB (sep : Bytes) : List Bytes → Bytes
  | [] => []
  | [a] => a
  | a :: r => a ++ sep ++ joinB sep r

mutual
partial def renderTy : GoTy → Bytes
  | .name n => n
  | .qual p n => p ++ str "." ++ n
  | .ptr t => str "*" ++ renderTy t
  | .slice t => str "[]" ++ renderTy t
  | .map t => str "map[string]" ++ renderTy t
  | .struct fs => str "struct{" ++ renderFields fs ++ str "}"
  | .func p r => str "func(" ++ renderFields p ++ str ")(" ++ renderFields r ++ str ")"
partial def renderFieldList : GoFields → List Bytes
  | .nil => []
  | .cons n t g r =>
    ((if n.isEmpty then [] else n ++ str " ") ++ renderTy t ++ (if g.isEmpty then [] else str " \"" ++ g ++ str "\""))
      :: renderFieldList r
partial def renderFields (fs : GoFields) : Bytes := joinB (str ";") (renderFieldList fs)
end

partial def renderExpr : Expr → Bytes
  | .ident n => n
  | .sel x f => x ++ str "." ++ f
  | .conv t p e => (if p then str "pconv[" else str "conv[") ++ renderTy t ++ str "](" ++ renderExpr e ++ str ")"

def hexB (b : Bytes) : Bytes := str (encB b)

def indent (d : Nat) : Bytes := List.replicate d 32

mutual
partial def renderStmt (d : Nat) : Stmt → Bytes
  | .var n t => indent d ++ str "var " ++ n ++ str " " ++ renderTy t ++ [10]
  | .define ns => indent d ++ str "def " ++ joinB (str ",") ns ++ [10]
  | .set l r => indent d ++ str "set " ++ renderExpr l ++ str " = " ++ renderExpr r ++ [10]
  | .args p as => indent d ++ str "args " ++ joinB (str ".") p ++ str " (" ++ joinB (str ";") (as.map renderExpr) ++ str ")" ++ [10]
  | .use x f => indent d ++ str "use " ++ x ++ str "." ++ f ++ [10]
  | .strArg x f l => indent d ++ str "str " ++ x ++ str "." ++ f ++ str " " ++ hexB l ++ [10]
  | .retString v => indent d ++ str "ret " ++ hexB v ++ [10]
  | .closure p r b => indent d ++ str "closure (" ++ renderFields p ++ str ") (" ++ renderFields r ++ str ")" ++ [10] ++ renderStmts (d + 1) b
  | .caseBlock l b => indent d ++ str "case " ++ (match l with | some v => hexB v | none => str "-") ++ [10] ++ renderStmts (d + 1) b
partial def renderStmts (d : Nat) : List Stmt → Bytes
  | [] => []
  | s :: r => renderStmt d s ++ renderStmts d r
end

def renderDecl : Decl → Bytes
  | .type n t => str "type " ++ n ++ str " " ++ renderTy t ++ [10]
  | .alias n t => str "alias " ++ n ++ str " " ++ renderTy t ++ [10]
  | .iface n ms => str "iface " ++ n ++ [10] ++
      (ms.map fun m => str " m " ++ m.name ++ str " (" ++ renderFields m.params ++ str ") (" ++ renderFields m.results ++ str ")" ++ [10]).flatten
  | .func f =>
    str "func " ++ (match f.recv with
      | none => str "-"
      | some r => r.name ++ str " " ++ (if r.pointer then str "*" else []) ++ r.ty)
    ++ str " " ++ f.name ++ str " (" ++ renderFields f.params ++ str ") (" ++ renderFields f.results ++ str ") uses="
    ++ joinB (str ",") f.pkgUses ++ [10] ++ renderStmts 1 f.body

/-- go/format sorts the import block; the summary lists the paths sorted -/
def canonImports : List Bytes :=
  [str "context", str "encoding/json", str "fmt", str "github.com/varlink/go/varlink"]

def sortedImports (l : List Bytes) : List Bytes :=
  canonImports.filter (fun p => l.contains p) ++ l.filter (fun p => !canonImports.contains p)

def renderFile (f : GoFile) : Bytes :=
  str "package " ++ f.pkg ++ [10]
  ++ ((sortedImports f.imports).map fun p => str "import " ++ p ++ [10]).flatten
  ++ (f.decls.map renderDecl).flatten

/-- first line on which two renderings differ (for the DIFF reason) -/
def firstDiffLine (a b : Bytes) : String :=
  let la := splitAll 10 a
  let lb := splitAll 10 b
  let rec go : List Bytes → List Bytes → Nat → String
    | x :: xs, y :: ys, i => if x == y then go xs ys (i + 1) else s!"line{i}"
    | [], [], _ => "none"
    | _, _, i => s!"length-at-line{i}"
  go la lb 0

/-- `gensum <idl>`: the rendering alone (debugging aid) -/
def cmdGenSum : P String := do
  let t ← idlP
  match genFile t with
  | some f => pure s!"S {encB (renderFile f)}"
  | none => pure "CRASH"

/-- `gentext <idl>` -/
def cmdGenText : P String := do
  let t ← idlP
  match genText t with
  | .ok s => pure s!"T {encB s}"
  | .crash => pure "CRASH"

/-! ## the verdict -/

/-- the class of input on which the generator used to fail before 30ae85f / 764942c / 2a8a008 / f1a09c1 (evidence
    feature `risk=`: these stay covered as regression inputs and must now succeed like any other description):
    package name a Go keyword, `main` or `documentation` (go/build ignores the files of a package of that name);
    `@IMPORTS@` in the interface documentation; the old substring tests
    (`json.RawMessage`, `fmt.Sprintf` anywhere in the emitted text, i.e. also in documentation and names)
    disagreeing with what the declarations use -/
def formerDefect (t : Idl) : String :=
  if goKeywords.contains (pkgBase t.name) then "keyword-package"
  else if pkgBase t.name == str "main" then "main-package"
  else if pkgBase t.name == str "documentation" then "documentation-package"
  else if contains (str "@IMPORTS@") t.doc then "placeholder-in-doc"
  else match genTextO t with
    | some s =>
      if contains (str "json.RawMessage") s != usesJson t || contains (str "fmt.Sprintf") s != usesFmt t
      then "import-mention" else "none"
    | none => "none"

/-- the import paths `imports_spec` (Props/C07.lean) promises -/
def expectedImports (t : Idl) : List Bytes :=
  [str "github.com/varlink/go/varlink", str "context"]
  ++ (if usesJson t then [str "encoding/json"] else []) ++ (if usesFmt t then [str "fmt"] else [])

mutual
partial def tyKinds : Ty → List Nat
  | .bool => [0] | .int => [1] | .float => [2] | .string => [3] | .object => [4]
  | .named _ => [5]
  | .maybe t => 6 :: tyKinds t
  | .array t => 7 :: tyKinds t
  | .map t => 8 :: tyKinds t
  | .struct fs => 9 :: fieldsKinds fs
  | .enum _ => [10]
partial def fieldsKinds : Fields → List Nat
  | .nil => []
  | .typed _ t r => tyKinds t ++ fieldsKinds r
  | .bare _ r => fieldsKinds r
end

def distinctKinds (t : Idl) : Nat :=
  ((t.members.map fun m => (m.types.map tyKinds).flatten).flatten).eraseDups.length

def bstr (b : Bytes) : String := String.ofList (b.map fun c => Char.ofNat c.toNat)

/-- `gen x<tag> <idl> | <real> x<outfile> <fmt> <texteq> <twice> x<modeltext> <modelcrash> <compile> x<class> x<msg> <probe> x<name> x<desc> x<summary>` -/
def cmdGen : P String := do
  let tag ← bytes
  let t ← idlP
  expect "|"
  let real ← tok
  let outFile ← bytes
  let fmtState ← tok
  let texteq ← tok
  let twice ← bool
  let modelText ← bytes
  let modelCrash ← bool
  let compile ← tok
  let ccls ← bytes
  let _cmsg ← bytes
  let probe ← tok
  let pname ← bytes
  let pdesc ← bytes
  let summary ← bytes
  let mo := genTextO t
  let mf := genFile t
  let dom := Domain t
  let risk := formerDefect t
  let kinds := distinctKinds t
  let domS := match outsideBecause t with | none => "in" | some r => s!"out:{r}"
  let wf : Option Bool := mf.map wellFormed
  let wfS := match mf with
    | none => "crash"
    | some f => match firstFailure f with | none => "ok" | some r => s!"no:{r}"
  let feats := s!"nt={if kinds ≥ 2 then 1 else 0} src={bstr tag} dom={domS} risk={risk} model={wfS} real={real} compile={compile} probe={probe} members={t.members.length} kinds={kinds}"
  -- harness and driver must talk about the same model text
  match mo with
  | none => if !modelCrash then return s!"DIFF C07 harness-driver-desync {feats}"
  | some s => if modelCrash || s != modelText then return s!"DIFF C07 harness-driver-desync {feats}"
  if mo.isSome != mf.isSome then return s!"DIFF C07 view-and-text-disagree-on-crash {feats}"
  if !twice then return s!"DIFF C07 second-run-over-an-existing-output-file-gives-other-bytes {feats}"
  -- a regression of f1a09c1 keeps its own stable reason: the real generator's file carries `package documentation`,
  -- go/build ignores it and the package does not build. Reported before the comparison with the model, which
  -- has the repaired rule (`documentation_`) and therefore differs in text and file name as well.
  if dom && compile == "fail" && ccls == str "package-documentation" then
    return s!"DIFF C07 package-documentation-ignored-by-go-build {feats}"
  -- model against the real generator
  match mf with
  | none =>
    if real != "crash" then return s!"DIFF C07 model-mismatch:model-crash-real-{real} {feats}"
  | some f =>
    if real == "crash" then return s!"DIFF C07 model-mismatch:real-crash-model-ok {feats}"
    if real != "ok" && real != "err" then return s!"DIFF C07 generator-{real} {feats}"
    if fmtState == "err" && real == "ok" then return s!"DIFF C07 model-mismatch:model-text-does-not-format {feats}"
    if fmtState == "ok" && real == "err" then return s!"DIFF C07 model-mismatch:real-error-but-model-text-formats {feats}"
    if real == "ok" then
      if texteq != "1" then return s!"DIFF C07 model-mismatch:text-differs {feats}"
      if outFile != f.pkg ++ str ".go" then return s!"DIFF C07 model-mismatch:output-file-name {feats}"
      let mine := renderFile f
      if mine != summary then return s!"DIFF C07 model-mismatch:view-differs-at-{firstDiffLine mine summary} {feats}"
    -- the compiler is the ground truth for wellFormed, both directions
    -- methodsOk is conservative for a `Reply<X>` helper that shadows a promoted varlink.Call method the file calls:
    -- Go accepts the file when the signatures happen to agree (e.g. `method MethodNotImplemented() -> (s: string)`);
    -- such members are outside the domain (`noReserved`)
    let conservativeShadow := !dom && firstFailure f == some "method-set"
      && t.members.any (fun m => reservedReply.contains m.name)
    if compile == "ok" && wf == some false && !conservativeShadow then
      return s!"DIFF C07 model-rejects-but-compiles:{(firstFailure f).getD "?"} {feats}"
    if compile == "fail" && wf == some true then
      return s!"DIFF C07 model-wellformed-but-compiler-rejects-{bstr ccls} {feats}"
    if probe == "ok" then
      if pname != t.name then return s!"DIFF C07 reports-other-name {feats}"
      if pdesc != t.description ++ [10] then return s!"DIFF C07 reports-other-description {feats}"
    -- theorems that hold for every file the generator returns (gen_importsOk, imports_spec), evaluated
    if !importsOk f then return s!"DIFF C07 theorem-contradicted:imports {feats}"
    if f.imports != expectedImports t then return s!"DIFF C07 theorem-contradicted:imports-spec {feats}"
  -- four conditions of the domain are guarantees of the parser (C06), not restrictions of the property: a
  -- description that violates one of them should never have got this far (the harness only passes on what
  -- `idl.New` accepted), and the generator would turn it into a file that does not compile
  match outsideBecause t with
  | some r =>
    if r == "name-shapes" || r == "unique-members" || r == "homogeneous" || r == "has-method" then
      return s!"DIFF C07 parser-accepted-a-description-without-its-guarantee:{r} {feats}"
  | none => pure ()
  -- the property itself, on the observation
  if dom then
    if real == "crash" then return s!"DIFF C07 crash-in-domain {feats}"
    if real == "err" then
      -- the reasons of the repaired defects stay stable, so that a regression is recognised as such
      if risk == "keyword-package" then return s!"DIFF C07 generator-error-keyword-package {feats}"
      if risk == "placeholder-in-doc" then return s!"DIFF C07 generator-error-imports-placeholder-in-doc {feats}"
      return s!"DIFF C07 generator-error-in-domain {feats}"
    if compile == "fail" then
      if ccls == str "unused-import" then return s!"DIFF C07 compiler-rejects-unused-import {feats}"
      if ccls == str "package-main" then return s!"DIFF C07 package-main-not-importable {feats}"
      if ccls == str "package-documentation" then
        return s!"DIFF C07 package-documentation-ignored-by-go-build {feats}"
      return s!"DIFF C07 compiler-rejects-in-domain-{bstr ccls} {feats}"
    if probe == "main" then return s!"DIFF C07 package-main-not-importable {feats}"
    if real != "ok" then return s!"DIFF C07 theorem-contradicted:total {feats}"
    -- what the theorems promise must hold at run time too, on EVERY description of the domain
    if (mf.map pkgOk) != some true then return s!"DIFF C07 theorem-contradicted:package-name {feats}"
    if wf != some true then return s!"DIFF C07 theorem-contradicted:wellformed {feats}"
  return s!"OK {feats}"

/-- `genperr x<tag> x<description> | <real>`: the real parser rejected the description; the generator must
    report an error (exit 1), not crash -/
def cmdGenPerr : P String := do
  let tag ← bytes
  let _d ← bytes
  expect "|"
  let real ← tok
  let feats := s!"nt=0 src={bstr tag} dom=out:parse-error real={real}"
  if real != "err" then return s!"DIFF C07 parse-error-but-generator-{real} {feats}"
  return s!"OK {feats}"

/-- command table of this module -/
def table : List (String × P String) := [("gentext", cmdGenText), ("gensum", cmdGenSum), ("gen", cmdGen), ("genperr", cmdGenPerr)]

end Driver.Gen
