/-
  Driver commands for the interface generator (C07):
    gentext <idl>            → `T x<model text>` | `CRASH`       (used by the harness before it observes)
    gen <idl> | <obs…>       → verdict
  `<idl>` is the tree the REAL `idl.New` returned, serialised by harness/gen.go:
    x<name> x<doc> x<description> <n> <member>*n
    member := A x<name> x<doc> <ty> | M x<name> x<doc> <ty> <ty> | R x<name> x<doc> (0 | 1 <ty>)
    ty     := b | i | f | s | o | n x<alias> | m <ty> | a <ty> | d <ty> | S <n> <field>*n | E <n> <field>*n
    field  := T x<name> <ty> | B x<name>
-/
import Varlink.Gen.View
import Driver.Proto
namespace Driver.Gen
open Varlink Varlink.Idl Varlink.Gen Driver

mutual
partial def tyP : P Ty := do
  let t ← tok
  match t with
  | "b" => pure .bool
  | "i" => pure .int
  | "f" => pure .float
  | "s" => pure .string
  | "o" => pure .object
  | "n" => do let n ← bytes; pure (.named n)
  | "m" => do let e ← tyP; pure (.maybe e)
  | "a" => do let e ← tyP; pure (.array e)
  | "d" => do let e ← tyP; pure (.map e)
  | "S" => do let n ← nat; let fs ← fieldsP n; pure (.struct fs)
  | "E" => do let n ← nat; let fs ← fieldsP n; pure (.enum fs)
  | _ => throw s!"bad type token {t}"
partial def fieldsP (n : Nat) : P Fields := do
  if n = 0 then pure .nil else
  let t ← tok
  match t with
  | "T" => do let nm ← bytes; let ty ← tyP; let r ← fieldsP (n - 1); pure (.typed nm ty r)
  | "B" => do let nm ← bytes; let r ← fieldsP (n - 1); pure (.bare nm r)
  | _ => throw s!"bad field token {t}"
end

def memberP : P Member := do
  let t ← tok
  match t with
  | "A" => do let n ← bytes; let d ← bytes; let ty ← tyP; pure (.alias n d ty)
  | "M" => do let n ← bytes; let d ← bytes; let i ← tyP; let o ← tyP; pure (.method n d i o)
  | "R" => do let n ← bytes; let d ← bytes; let ty ← optOf tyP; pure (.error n d ty)
  | _ => throw s!"bad member token {t}"

def idlP : P Idl := do
  let name ← bytes
  let doc ← bytes
  let description ← bytes
  let members ← listOf memberP
  pure { name, doc, description, members }

/-! ## rendering of the `GoFile` view, the format of harness/gensummary.go -/

def joinB (sep : Bytes) : List Bytes → Bytes
  | [] => []
  | [a] => a
  | a :: r => a ++ sep ++ joinB sep r

mutual
partial def renderTy : GoTy → Bytes
  | .name n => n
  | .qual p n => p ++ str "." ++ n
  | .ptr t => str "*" ++ renderTy t
  | .slice t => str "[]" ++ renderTy t
  | .map t => str "map[string]" ++ renderTy t
  | .struct fs => str "struct{" ++ renderFields fs ++ str "}"
  | .func p r => str "func(" ++ renderFields p ++ str ")(" ++ renderFields r ++ str ")"
partial def renderFieldList : GoFields → List Bytes
  | .nil => []
  | .cons n t g r =>
    ((if n.isEmpty then [] else n ++ str " ") ++ renderTy t ++ (if g.isEmpty then [] else str " \"" ++ g ++ str "\""))
      :: renderFieldList r
partial def renderFields (fs : GoFields) : Bytes := joinB (str ";") (renderFieldList fs)
end

partial def renderExpr : Expr → Bytes
  | .ident n => n
  | .sel x f => x ++ str "." ++ f
  | .conv t p e => (if p then str "pconv[" else str "conv[") ++ renderTy t ++ str "](" ++ renderExpr e ++ str ")"

def hexB (b : Bytes) : Bytes := str (encB b)

def indent (d : Nat) : Bytes := List.replicate d 32

mutual
partial def renderStmt (d : Nat) : Stmt → Bytes
  | .var n t => indent d ++ str "var " ++ n ++ str " " ++ renderTy t ++ [10]
  | .define ns => indent d ++ str "def " ++ joinB (str ",") ns ++ [10]
  | .set l r => indent d ++ str "set " ++ renderExpr l ++ str " = " ++ renderExpr r ++ [10]
  | .args p as => indent d ++ str "args " ++ joinB (str ".") p ++ str " (" ++ joinB (str ";") (as.map renderExpr) ++ str ")" ++ [10]
  | .use x f => indent d ++ str "use " ++ x ++ str "." ++ f ++ [10]
  | .strArg x f l => indent d ++ str "str " ++ x ++ str "." ++ f ++ str " " ++ hexB l ++ [10]
  | .retString v => indent d ++ str "ret " ++ hexB v ++ [10]
  | .closure p r b => indent d ++ str "closure (" ++ renderFields p ++ str ") (" ++ renderFields r ++ str ")" ++ [10] ++ renderStmts (d + 1) b
  | .caseBlock l b => indent d ++ str "case " ++ (match l with | some v => hexB v | none => str "-") ++ [10] ++ renderStmts (d + 1) b
partial def renderStmts (d : Nat) : List Stmt → Bytes
  | [] => []
  | s :: r => renderStmt d s ++ renderStmts d r
end

def renderDecl : Decl → Bytes
  | .type n t => str "type " ++ n ++ str " " ++ renderTy t ++ [10]
  | .iface n ms => str "iface " ++ n ++ [10] ++
      (ms.map fun m => str " m " ++ m.name ++ str " (" ++ renderFields m.params ++ str ") (" ++ renderFields m.results ++ str ")" ++ [10]).flatten
  | .func f =>
    str "func " ++ (match f.recv with
      | none => str "-"
      | some r => r.name ++ str " " ++ (if r.pointer then str "*" else []) ++ r.ty)
    ++ str " " ++ f.name ++ str " (" ++ renderFields f.params ++ str ") (" ++ renderFields f.results ++ str ") uses="
    ++ joinB (str ",") f.pkgUses ++ [10] ++ renderStmts 1 f.body

/-- go/format sorts the import block; the summary lists the paths sorted -/
def canonImports : List Bytes :=
  [str "context", str "encoding/json", str "fmt", str "github.com/varlink/go/varlink"]

def sortedImports (l : List Bytes) : List Bytes :=
  canonImports.filter (fun p => l.contains p) ++ l.filter (fun p => !canonImports.contains p)

def renderFile (f : GoFile) : Bytes :=
  str "package " ++ f.pkg ++ [10]
  ++ ((sortedImports f.imports).map fun p => str "import " ++ p ++ [10]).flatten
  ++ (f.decls.map renderDecl).flatten

/-- first line on which two renderings differ (for the DIFF reason) -/
def firstDiffLine (a b : Bytes) : String :=
  let la := splitAll 10 a
  let lb := splitAll 10 b
  let rec go : List Bytes → List Bytes → Nat → String
    | x :: xs, y :: ys, i => if x == y then go xs ys (i + 1) else s!"line{i}"
    | [], [], _ => "none"
    | _, _, i => s!"length-at-line{i}"
  go la lb 0

/-- `gensum <idl>`: the rendering alone (debugging aid) -/
def cmdGenSum : P String := do
  let t ← idlP
  match genFile t with
  | some f => pure s!"S {encB (renderFile f)}"
  | none => pure "CRASH"

/-- `gentext <idl>` -/
def cmdGenText : P String := do
  let t ← idlP
  match genText t with
  | .ok s => pure s!"T {encB s}"
  | .crash => pure "CRASH"

/-- command table of this module -/
def table : List (String × P String) := [("gentext", cmdGenText), ("gensum", cmdGenSum)]

end Driver.Gen
