/-
  Driver command for the generated stubs (C08), see harness/stub.go:
    stubs <idl> <k> (<scenario> x<method> <flags> <nin> <val>*nin <scenario data> | x<c2s> x<s2c> <ncalls> (x<method> x<args json> <more> <oneway> <upgrade>)* <nres> (vals x<json> <flags> | err x<type> x<msg> x<json>)*
    stubbuild <idl> | x<message>
-/
import Varlink.Stub
import Driver.CmdsGen
import Driver.Cmds
namespace Driver.Stub
open Varlink Varlink.Idl Varlink.Stub Driver

def intP : P Int := do
  let t ← tok
  match t.toInt? with
  | some i => pure i
  | none => throw s!"expected integer, got {t}"

mutual
partial def valP : P Val := do
  let t ← tok
  match t with
  | "vb" => do let b ← bool; pure (.bool b)
  | "vi" => do let i ← intP; pure (.int i)
  | "vf" => do let l ← bytes; pure (.float l)
  | "vs" => do let s ← bytes; pure (.str s)
  | "vo" => do
    let s ← bytes
    match parseDoc s with
    | some j => pure (.obj j)
    | none => throw "object value is not JSON"
  | "vn" => pure .none
  | "vS" => do let v ← valP; pure (.some v)
  | "vl0" => pure .nilList
  | "vl" => do let n ← nat; let vs ← valsP n; pure (.list vs)
  | "vm0" => pure .nilMap
  | "vm" => do let n ← nat; let ms ← mapP n; pure (.map ms)
  | "vt" => do let n ← nat; let vs ← valsP n; pure (.struct vs)
  | _ => throw s!"bad value token {t}"
partial def valsP (n : Nat) : P ValList := do
  if n = 0 then pure .nil else
  let v ← valP
  let r ← valsP (n - 1)
  pure (.cons v r)
partial def mapP (n : Nat) : P ValMap := do
  if n = 0 then pure .nil else
  let k ← bytes
  let v ← valP
  let r ← mapP (n - 1)
  pure (.cons k v r)
end

def valListP : P ValList := do
  let n ← nat
  valsP n

structure CallObs where
  method : Bytes
  args : Bytes
  more : Bool
  oneway : Bool
  upgrade : Bool

inductive ResObs where
  | vals (json : Bytes) (flags : Nat)
  | err (ty msg json : Bytes)

def callObsP : P CallObs := do
  let m ← bytes; let a ← bytes; let mo ← bool; let ow ← bool; let up ← bool
  pure ⟨m, a, mo, ow, up⟩

def resObsP : P ResObs := do
  let t ← tok
  match t with
  | "vals" => do let j ← bytes; let f ← nat; pure (.vals j f)
  | "err" => do let ty ← bytes; let m ← bytes; let j ← bytes; pure (.err ty m j)
  | _ => throw s!"bad result token {t}"

def framesOf (stream : Bytes) : List Bytes × Bytes := splitOnNul stream

/-- compare a JSON array text with the untagged encodings of the values, field by field -/
def goValuesMatch (al : Aliases) (fs : Fields) (vs : ValList) (json : Bytes) : Bool :=
  match parseDoc json, encodeGoFieldsF al bigFuel fs vs with
  | some (.arr xs), some ms => JList.beq xs (JList.ofList (ms.toList.map (·.2)))
  | _, _ => false

/-- every field value has its field's type -/
def wellTyped (al : Aliases) (fs : Fields) (vs : ValList) : Bool := hasTypeFieldsF al bigFuel fs vs

mutual
partial def valDepth : Val → Nat
  | .some v => valDepth v + 1
  | .list vs => valsDepth vs + 1
  | .map ms => mapDepth ms + 1
  | .struct vs => valsDepth vs + 1
  | _ => 0
partial def valsDepth : ValList → Nat
  | .nil => 0
  | .cons v r => max (valDepth v) (valsDepth r)
partial def mapDepth : ValMap → Nat
  | .nil => 0
  | .cons _ v r => max (valDepth v) (mapDepth r)
end

def stdErrTypeName : StdErr → Bytes
  | .interfaceNotFound _ => str "*varlink.InterfaceNotFound"
  | .methodNotFound _ => str "*varlink.MethodNotFound"
  | .methodNotImplemented _ => str "*varlink.MethodNotImplemented"
  | .invalidParameter _ => str "*varlink.InvalidParameter"

/-- does some `type` member resolve (through other type members) to `object` itself: the Go declaration
    `type T json.RawMessage` is a new type WITHOUT RawMessage's MarshalJSON/UnmarshalJSON -/
def headIsObject (al : Aliases) : Nat → Ty → Bool
  | 0, _ => false
  | _ + 1, .object => true
  | f + 1, .named n => match lookupAlias al n with
    | some ty => headIsObject al f ty
    | none => false
  | _ + 1, _ => false

def hasObjectAlias (t : Idl) : Bool :=
  let al := aliasesOf t
  al.any fun (_, ty) => headIsObject al (al.length + 1) ty

/-- a `type` member whose body is an optional object (`type U ?object`): the Go declaration `type U *json.RawMessage`
    is a defined pointer type without methods; encoding/json refuses to decode any JSON value but null into it -/
def hasOptionalObjectAlias (t : Idl) : Bool :=
  let al := aliasesOf t
  al.any fun (_, ty) => match ty with
    | .maybe e => headIsObject al (al.length + 1) e
    | _ => false

/-- one case of a `stubs` line -/
def stubCase (t : Idl) : P String := do
  let scenario ← tok
  let methodName ← bytes
  let flagsN ← nat
  let args ← valListP
  -- scenario data
  let mut replies : List (Bool × ValList) := []
  let mut errName : Bytes := []
  let mut errVals : ValList := .nil
  let mut rawFrame : Bytes := []
  if scenario == "reply" then
    replies ← listOf (do let c ← bool; let vs ← valListP; pure (c, vs))
  else if scenario == "error" then
    errName ← bytes
    errVals ← valListP
  else if scenario == "unknown" || scenario == "badparams" then
    rawFrame ← bytes
  else if scenario == "rawcall" then
    rawFrame ← bytes
    let vs ← valListP
    replies := [(false, vs)]
  expect "|"
  let c2s ← bytes
  let s2c ← bytes
  let calls ← listOf callObsP
  let results ← listOf resObsP
  let al := aliasesOf t
  let fl := Flags.ofNat flagsN
  let depth := max (valsDepth args) ((replies.map fun r => valsDepth r.2).foldl max (valsDepth errVals))
  -- known deviation class: an alias of `object` is a Go type without RawMessage's methods (base64 on the wire)
  let cls := if hasOptionalObjectAlias t then ":optional-object-behind-alias"
    else if hasObjectAlias t then ":object-behind-alias" else ""
  let feats := s!"nt={if depth ≥ 2 then 1 else 0} scenario={scenario} flags={flagsN} depth={depth} calls={calls.length} results={results.length} members={t.members.length} objalias={if hasObjectAlias t then 1 else 0}"
  let some m := findMethod t methodName | return s!"DIFF C08 harness-unknown-method {feats}"
  let raw := scenario == "unknown" || scenario == "badparams" || scenario == "rawcall"
  -- the generated values are values of the declared types
  if !raw && !wellTyped al m.ins args then return s!"DIFF C08 harness-value-not-of-type {feats}"
  if !replies.all (fun r => wellTyped al m.outs r.2) then return s!"DIFF C08 harness-value-not-of-type {feats}"
  let errFields := (findError t errName).getD .nil
  if scenario == "error" && !wellTyped al errFields errVals then return s!"DIFF C08 harness-value-not-of-type {feats}"
  -- 1. the call on the wire
  let (reqFrames, reqTail) := framesOf c2s
  if !reqTail.isEmpty || reqFrames.length != 1 then return s!"DIFF C08 request-stream-not-one-frame{cls} {feats}"
  let reqFrame := reqFrames.headD []
  if !raw then
    match stubCall t bigFuel m args fl with
    | .written frame =>
      match parseDoc reqFrame with
      | some j => if !JVal.beq j frame then return s!"DIFF C08 call-on-wire-differs{cls} {feats}"
      | none => return s!"DIFF C08 call-on-wire-not-json{cls} {feats}"
    | _ => return s!"DIFF C08 model-refuses-the-call{cls} {feats}"
  -- 2. the service side: routing, decoding, delivery
  let some c := decodeCall reqFrame | return s!"DIFF C08 request-frame-undecodable{cls} {feats}"
  let implActs : List Act :=
    -- (an error reply to a `more` call is issued with `Call.Continues` left set, as after streamed replies: the error
    --  frame must not carry it)
    if scenario == "error" then (if fl.more then [Act.setContinues true] else []) ++ [errorAct t bigFuel errName errFields errVals]
    else (replies.map fun r => [Act.setContinues r.1, replyAct t bigFuel m r.2]).flatten
  let impl : MethodSig → ValList → CallIn → Option Script :=
    if scenario == "notimpl" then fun _ _ _ => none
    else fun _ _ _ => some { acts := implActs, returnsError := false }
  let reg : Registry := { vendor := [], product := [], version := [], url := [], ifaces := [(t.name, t.description)] }
  let outcome := handleCall reg (behaviour t bigFuel impl) c
  let localName := match lastIndexOf dot c.method with
    | some i => c.method.drop (i + 1)
    | none => c.method
  let disp := dispatch t bigFuel localName c
  match scenario, disp with
  | "reply", .deliver _ vs | "error", .deliver _ vs | "notimpl", .deliver _ vs =>
    if !ValList.beq vs args then return s!"DIFF C08 model:decoded-arguments-differ-from-sent{cls} {feats}"
  | "rawcall", .deliver _ vs =>
    -- the values a non-Go peer sent (other key order / letter case, unknown members) arrive unchanged
    if !ValList.beq vs args then return s!"DIFF C08 model:decoded-arguments-differ-from-sent{cls} {feats}"
  | "unknown", .notFound => pure ()
  | "badparams", .invalidParameters => pure ()
  | "badparams", .deliver _ _ => if calls.isEmpty then return s!"DIFF C08 model-mismatch:model-accepts-parameters-the-code-rejects{cls} {feats}"
  | _, _ => return s!"DIFF C08 model-mismatch:dispatch-{scenario}{cls} {feats}"
  if scenario == "reply" || scenario == "error" || scenario == "rawcall" then
    match calls with
    | [co] =>
      if co.method != m.name then return s!"DIFF C08 dispatched-to-other-method{cls} {feats}"
      if !goValuesMatch al m.ins args co.args then return s!"DIFF C08 delivered-arguments-differ{cls} {feats}"
      if !raw && (co.more != fl.more || co.oneway != fl.oneway || co.upgrade != fl.upgrade) then
        return s!"DIFF C08 flags-not-passed-through{cls} {feats}"
    | _ => return s!"DIFF C08 implementation-called-{calls.length}-times{cls} {feats}"
  else
    if !calls.isEmpty then return s!"DIFF C08 implementation-called-in-{scenario}{cls} {feats}"
  -- 3. the reply frames
  let (repFrames, repTail) := framesOf s2c
  if !repTail.isEmpty then return s!"DIFF C08 reply-stream-trailing-bytes{cls} {feats}"
  let expFrames := outcome.frames.map replyObj
  let obsFrames := repFrames.map parseDoc
  if obsFrames.any Option.isNone then return s!"DIFF C08 reply-frame-not-json{cls} {feats}"
  if !Driver.listBeq JVal.beq expFrames (obsFrames.filterMap id) then
    return s!"DIFF C08 reply-frames-differ{cls} {feats}"
  -- 4. what the client stub returned
  if raw then return s!"OK {feats}"
  let expResults : List StubResult := repFrames.map (stubReceive t bigFuel m)
  if expResults.length != results.length then
    return s!"DIFF C08 client-results:expected{expResults.length}-observed{results.length}{cls} {feats}"
  for (er, ob) in expResults.zip results do
    match er, ob with
    | .values vs cont, .vals json f =>
      if !goValuesMatch al m.outs vs json then return s!"DIFF C08 returned-values-differ{cls} {feats}"
      if f != (if cont then 4 else 0) then return s!"DIFF C08 returned-flags-differ{cls} {feats}"
    | .typedError e vs, .err ty _ json =>
      if ty != str "*" ++ Gen.pkgName t.name ++ str "." ++ e then return s!"DIFF C08 typed-error-other-type{cls} {feats}"
      match parseDoc json, encodeF al bigFuel (.struct ((findError t e).getD .nil)) (.struct vs) with
      | some j, some (.obj ms) => if !JVal.beq j (.obj ms) then return s!"DIFF C08 typed-error-fields-differ{cls} {feats}"
      | _, _ => return s!"DIFF C08 typed-error-fields-differ{cls} {feats}"
    | .stdError e, .err ty _ json =>
      if ty != stdErrTypeName e then return s!"DIFF C08 std-error-other-type{cls} {feats}"
      match parseDoc json with
      | some j => if !JVal.beq j e.params then return s!"DIFF C08 std-error-fields-differ{cls} {feats}"
      | none => return s!"DIFF C08 std-error-fields-differ{cls} {feats}"
    | .otherError _ _, .err ty _ _ =>
      if ty != str "*varlink.Error" then return s!"DIFF C08 generic-error-other-type{cls} {feats}"
    | _, _ => return s!"DIFF C08 client-result-kind-differs{cls} {feats}"
  -- the model-level round trips the theorems state, at run time
  -- (when a continues reply is issued on a call without more it is refused and not written, so results
  --  and issued replies are no longer in one-to-one correspondence; the frame comparison above decides)
  if scenario == "reply" && (fl.more || replies.all (fun r => !r.1)) then
    for (er, r) in expResults.zip replies do
      match er with
      | .values vs cont =>
        if !ValList.beq vs r.2 then return s!"DIFF C08 model:returned-values-differ-from-replied{cls} {feats}"
        if cont != (r.1 && fl.more) then return s!"DIFF C08 model:continues-differs{cls} {feats}"
      | _ => return s!"DIFF C08 model:reply-became-error{cls} {feats}"
  if scenario == "error" then
    match expResults with
    | [.typedError e vs] =>
      if e != errName || !ValList.beq vs errVals then return s!"DIFF C08 model:error-fields-differ-from-replied{cls} {feats}"
    | _ => return s!"DIFF C08 model:error-not-typed{cls} {feats}"
  if scenario == "notimpl" then
    match expResults with
    | [.stdError (.methodNotImplemented x)] =>
      if x != joinDot t.name m.name then return s!"DIFF C08 not-implemented-names-other-method{cls} {feats}"
    | _ => return s!"DIFF C08 not-overridden-but-no-MethodNotImplemented{cls} {feats}"
  return s!"OK {feats}"

/-- `stubs <idl> <k> <case>*k`: all cases of one description; the verdict is the first disagreement -/
def cmdStubs : P String := do
  let t ← Gen.idlP
  let k ← nat
  let mut feats : String := ""
  let mut bad : Option String := none
  let mut nt := 0
  for _ in [0:k] do
    let v ← stubCase t
    let toks := v.splitOn " "
    if toks.head? != some "OK" && bad.isNone then bad := some v
    if toks.contains "nt=1" then nt := 1
    for tk in toks do
      if tk.startsWith "scenario=" || tk.startsWith "flags=" then feats := feats ++ " " ++ tk
  match bad with
  | some v => return v
  | none => return s!"OK nt={nt} cases={k} members={t.members.length}{feats}"

/-- `stubskip <why>`: the description is not inside the C07 domain or hits a C07 known finding (C07 decides that) -/
def cmdStubSkip : P String := do
  let why ← tok
  return s!"OK nt=0 skipped={why}"

/-- `stubbuild <idl> | x<msg>`: the emitted driver does not compile against the generated package -/
def cmdStubBuild : P String := do
  let _t ← Gen.idlP
  expect "|"
  let msg ← bytes
  return s!"DIFF C08 driver-does-not-build:{(Gen.bstr msg).replace " " "_"} nt=0"

def table : List (String × P String) := [("stubs", cmdStubs), ("stubskip", cmdStubSkip), ("stubbuild", cmdStubBuild)]

end Driver.Stub
