import Varlink
import Driver.Proto
import Driver.Cmds
import Driver.CmdsIdl
import Driver.CmdsLife
import Driver.CmdsGen
import Driver.CmdsStub
import Driver.CmdsMisc
import Driver.CmdsConc
open Driver

/-- all command tables (one per `Driver/Cmds*.lean`) -/
def allCommands : List (String × P String) := Driver.table ++ Driver.IdlCmd.table ++ Driver.Misc.table ++ Driver.Gen.table ++ Driver.Life.table ++ Driver.Conc.table ++ Driver.Stub.table

def runCmd : P String := do
  let c ← tok
  match allCommands.lookup c with
  | some p => p
  | none => throw s!"unknown command {c}"

partial def loop (h : IO.FS.Stream) (out : IO.FS.Stream) : IO Unit := do
  let line ← h.getLine
  if line.isEmpty then return ()
  let l := String.ofList (line.toList.filter (fun c => c ≠ '\n' && c ≠ '\r'))
  if l.isEmpty then
    out.putStrLn ""
  else
    let toks := l.splitOn " "
    match (runCmd.run toks) with
    | .ok (s, _) => out.putStrLn s
    | .error e => out.putStrLn s!"PROTO-ERROR {e}"
  loop h out

def main : IO Unit := do
  let stdin ← IO.getStdin
  let stdout ← IO.getStdout
  loop stdin stdout
  stdout.flush
