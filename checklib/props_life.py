"""C14, C15: service lifecycle (lean/Varlink/Lifecycle.lean, harness/life.go, lean/Driver/CmdsLife.lean)."""

NET_TB = ("the model's view of package net (Accept on a closed listener fails with a non-timeout error, a timeout error only "
          "after SetDeadline on an open listener, connect to a closed listener is refused, listen fails only while an open "
          "listener holds the address): emulated by the harness's controlled listener and re-validated on real unix (path, "
          "abstract) and tcp sockets by the lifesock streams of every run")
SCHED_TB = ("the harness's quiescence test (runtime.Stack: no goroutine running or runnable) that delimits the events of a history, "
            "and the driver's replay of harness events as label sequences of the transition system")
SKEL_TB = "the go/ast skeleton extractor (extract/lifecycle.go): a syntactic reduction of service.go to its synchronisation-relevant operations"


def _streams(prop, quick_random, thorough_random):
    def f(tier):
        n = quick_random if tier == "quick" else thorough_random
        out = [("life" + prop, ["-tier", tier, "-n", str(n)]), ("lifesock" + prop, ["-tier", tier])]
        if prop == "14":
            # real-scheduler stream (Bind concurrent with DoListen's start-up), run in a child process: the Bind must be
            # refused or come first; a Bind accepted after the serving call picked up the old listener is the defect
            # repaired by a1069ea (before the repair about one trial in three hit it)
            out.append(("lifeprobe", ["-n", "60" if tier == "quick" else "300"]))
            # draining rests on the per-connection read giving up when its context ends, whatever the reader holds
            # (C17's stream: real transports + generated traces over the tracing connection)
            out.append(("cancel", ["-n", "234" if tier == "quick" else "3034"]))
            # a second serving run on the same object under the same context serves (and other short histories)
            out.append(("history", ["-n", "8" if tier == "quick" else "32"]))
        return out
    return f


PROPS = {
    "C14": {
        "streams": _streams("14", 1500, 30000),
        "rule": "(history) short fixed histories whose state must not outlive an operation: a Send given up on an unbuffered pipe followed by calls (the peer sees only the later calls), a connection closed with received but unread replies followed by a new connection that calls and upgrades, an interface registered between two serving runs on one Service under the same context (a call answered InterfaceNotFound before reaches it afterwards), a plain call after a `more` call answered to its end (the handler sees the flags of the call it handles); all histories (quick: 4 events after Bind+DoListen, 3 unconstrained; thorough: 5 / 5 / 6) over {Bind, DoListen, second Listen, "
                "connect, connect with Shutdown placed between accept and handler start, connect with Shutdown placed in the following "
                "SetDeadline, GetInfo call, client close, abort mid-frame, failing handler, ctx cancel, Shutdown, GetListener, "
                "RegisterInterface} on a controlled listener + random longer ones + all histories of 3 (4) events with Listen on real "
                "unix-path / abstract / tcp sockets; every history is followed by Shutdown, closing all clients and a complete second "
                "bind-serve-call-shutdown cycle on the same object; non-trivial = a connection open at a Shutdown or expiry",
        "trusted_base": [NET_TB, SCHED_TB, SKEL_TB],
        "assumptions": [
            "fairness: a thread that can move is eventually scheduled (progress theorems count the thread's own steps)",
            "behaviour of net listeners as listed in lean/Varlink/Lifecycle.lean",
            "return time of the serving call is checked with one-sided margins only (3 s watchdog)",
            "theorems about the return value and endpoint release assume the orderly discipline (no Bind/Listen/DoListen started while "
            "another serving call has not returned, except binds refused because the service is running); the general model shows what "
            "overlapping calls do",
        ],
    },
    "C15": {
        "streams": _streams("15", 1500, 30000),
        "rule": "all histories (quick 5, thorough 6 events after Bind+DoListen(timeout)) over {connect, connect with Shutdown in the next "
                "SetDeadline, call, close, abort, accept-deadline expiry, expiry with Shutdown placed before Accept returns, expiry with "
                "Shutdown placed in the next SetDeadline, Shutdown} with expiries injected through the controlled listener, the same "
                "without a timeout and with a connection queued before serving starts, random longer ones, all histories of 4 (5) events over "
                "{connect, call, close, abort, expiry, Shutdown} with Listen on real unix-path / abstract / tcp sockets and expiries "
                "injected on the real listener (SetDeadline in the past; drives Listen's own timeout branch deterministically), and real-clock histories "
                "(timeout 400 ms, sleeps of 480 ms) with Listen on unix-path / abstract / tcp sockets incl. immediate re-listen on "
                "the same address; non-trivial = a connection open at an expiry or Shutdown",
        "trusted_base": [NET_TB, SCHED_TB, SKEL_TB],
        "assumptions": [
            "behaviour of net listeners as listed in lean/Varlink/Lifecycle.lean",
            "real-clock runs: one-sided margins (an expiry is only assumed to have happened after sleeping timeout+80 ms)",
            "orderly discipline for the theorems about which listener gets closed (see C14)",
        ],
    },
}
