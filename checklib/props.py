"""Per-property configuration of ./check: harness streams per tier, evidence texts."""

JSON_TB = "encoding/json is modelled (lean/Varlink/Json.lean), validated against the real package by every correspondence run"


def conn_streams(quick_n, thorough_n, extra=()):
    def f(tier):
        n = quick_n if tier == "quick" else thorough_n
        return [("conn", ["-n", str(n)])] + [(s, list(a)) for s, a in extra]
    return f


PROPS = {
    "C01": {
        "streams": conn_streams(3000, 60000),
        "rule": "random registry x sequence of 0-25 request frames (valid calls with scripted handler behaviour carried in the parameters, built-in calls, malformed frames) x segmentation; non-trivial = at least 2 calls on the connection or a handler script with at least 2 actions",
        "trusted_base": [JSON_TB, "bufio.Reader modelled (lean/Varlink/Frame.lean)"],
        "assumptions": ["goroutine scheduling inside one handler is not modelled; N-connection runs sample it"],
    },
    "C04": {
        "streams": conn_streams(3000, 60000),
        "rule": "random registry (names that are prefixes/suffixes of each other, dotted, unicode) x method strings from a near-miss grammar; non-trivial = method string with at least 2 dots or a near miss of a registered name",
        "trusted_base": [JSON_TB],
        "assumptions": [],
    },
}
