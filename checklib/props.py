"""Per-property configuration of ./check: harness streams per tier, evidence texts."""

JSON_TB = "encoding/json is modelled (lean/Varlink/Json.lean), validated against the real package by every correspondence run"


def conn_streams(quick_n, thorough_n, extra=()):
    def f(tier):
        n = quick_n if tier == "quick" else thorough_n
        return [("conn", ["-n", str(n)])] + [(s, ["-n", str(q if tier == "quick" else t)]) for s, q, t in extra]
    return f


BUFIO_TB = "bufio.Reader is modelled (lean/Varlink/Frame.lean), validated against the real package by the ctxio stream of every run"


def streams(*specs):
    """specs: (sub, quick_n, thorough_n, extra args...)"""
    def f(tier):
        out = []
        for sp in specs:
            sub, q, t = sp[0], sp[1], sp[2]
            out.append((sub, ["-n", str(q if tier == "quick" else t)] + list(sp[3:])))
        return out
    return f


PROPS = {
    "C12": {
        "streams": conn_streams(3000, 60000, extra=[("client", 3000, 60000), ("e2e", 400, 8000)]),
        "rule": "handler scripts issuing error replies with names from a grammar with near-misses of the reserved namespace x JSON parameters (incl. none); non-trivial = at least 2 calls or a script with at least 2 actions",
        "trusted_base": [JSON_TB],
        "assumptions": [],
    },
    "C18": {
        "streams": streams(("ctxio", 4000, 100000), ("upgrade", 600, 20000), ("upgradebig", 16, 96), ("duplex", 12, 200), ("history", 8, 32)),
        "rule": "(history) short fixed histories whose state must not outlive an operation: a Send given up on an unbuffered pipe followed by calls (the peer sees only the later calls), a connection closed with received but unread replies followed by a new connection that calls and upgrades, an interface registered between two serving runs on one Service under the same context (a call answered InterfaceNotFound before reaches it afterwards), a plain call after a `more` call answered to its end (the handler sees the flags of the call it handles); (upgradebig) real client <-> real service, 1 MiB .. 16 MiB + 5 bytes of raw stream after the upgrade in either direction (sizes around 4 MiB and 16 MiB), compared by length and SHA-256; (upgrade) upgraded calls end to end: real Service handler reading through Call.Conn from a raw client that sends request frame and payload in one write; real Connection.Upgrade reading through the returned object from a raw server that sends reply frame and payload in one write; real client <-> real service with payload both ways; payload sizes 1..20000, read buffers 1..70000 (below/at/above the 4096-byte reader buffer); (ctxio) random byte streams (empty frames, frames > 4096 bytes, payload without NUL) x segmentations (one segment, byte-wise, at NULs, random) x interleavings of frame reads and raw reads of sizes 1..10000; non-trivial = at least 2 segments or 2 frames and at least one operation",
        "trusted_base": [BUFIO_TB, "the go/ast extractor that reports which object each read primitive uses"],
        "assumptions": ["net.Conn.Read never returns (0, nil)"],
    },
    "C01": {
        "streams": conn_streams(3000, 60000, extra=[("multiconn", 150, 3000), ("scale", 14, 56), ("connctx", 10, 100)]),
        "rule": "(scale) one dimension far beyond the replayed cases between real client and real service: frames of 1 MiB .. 16 MiB + 1 in both directions, 70 / 300 connections open at once, 5000 / 20000 calls on one connection, a more call with 20000 / 70000 replies, a connection closed twice followed by 3 connections open at once (each gets only its own replies), two 1 MiB replies on two connections under way at the same time; (multiconn) one service, 2/4/8 concurrent connections over a real unix socket, each with its own stream and segmentation, replies compared per connection with the model of that connection alone; (conn) random registry x sequence of 0-25 request frames (valid calls with scripted handler behaviour carried in the parameters, built-in calls, malformed frames) x segmentation; non-trivial = at least 2 calls on the connection or a handler script with at least 2 actions",
        "trusted_base": [JSON_TB, "bufio.Reader modelled (lean/Varlink/Frame.lean)"],
        "assumptions": ["goroutine scheduling inside one handler is not modelled; N-connection runs sample it"],
    },
    "C04": {
        "streams": conn_streams(3000, 60000, extra=[("reg", 1200, 20000), ("history", 8, 32)]),
        "rule": "(history) short fixed histories whose state must not outlive an operation: a Send given up on an unbuffered pipe followed by calls (the peer sees only the later calls), a connection closed with received but unread replies followed by a new connection that calls and upgrades, an interface registered between two serving runs on one Service under the same context (a call answered InterfaceNotFound before reaches it afterwards), a plain call after a `more` call answered to its end (the handler sees the flags of the call it handles); random registry (names that are prefixes/suffixes of each other, dotted, unicode) x method strings from a near-miss grammar; non-trivial = method string with at least 2 dots or a near miss of a registered name; plus registration histories on a real service over a socket (accepted, duplicate and refused-while-serving registrations) followed by a call to every name that was tried",
        "trusted_base": [JSON_TB],
        "assumptions": [],
    },
}


# further properties live in checklib/props_*.py (each defines PROPS = {...}); merged here
import glob as _glob, importlib.util as _ilu, os as _os
for _f in sorted(_glob.glob(_os.path.join(_os.path.dirname(_os.path.abspath(__file__)), "props_*.py"))):
    _spec = _ilu.spec_from_file_location(_os.path.basename(_f)[:-3], _f)
    _m = _ilu.module_from_spec(_spec)
    _spec.loader.exec_module(_m)
    PROPS.update(_m.PROPS)
