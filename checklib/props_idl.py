"""IDL parser properties C05, C06, C09: harness streams per tier and evidence texts (see briefs/idl.md)."""

IDL_TB = [
    "hand-written Lean transliteration of varlink/idl/idl.go (lean/Varlink/Idl/Parser.lean), compared with the real idl.New on every case of every run (outcome, error site, full tree, docs, description)",
    "the two interface-name regular expressions are modelled by a hand-written automaton, compared on every run with package regexp compiled from the literals found in the source of readInterfaceName",
]


def _streams(spec):
    def f(tier):
        return [(sub, ["-n", str(q if tier == "quick" else t), "-tier", tier]) for (sub, q, t) in spec]
    return f


PROPS = {
    "C05": {
        "streams": _streams([("idl", 20000, 900000), ("idlname", 3000, 200000)]),
        "rule": "bounded-exhaustive syntax trees (all types up to 3 nodes in every member position, all member-kind sequences up to length 3) x layout pool (every atom: space, tab, CR, LF, CRLF, '# text', '#text', '#', '# ', comment with CRLF, with '#', with non-UTF-8 bytes; in every gap class G0-G11; documentation blocks above members and between an error's name and its parameter list; members sharing a line, directly behind the previous member and behind an error without parameters; every end of the text - nothing, blanks, line break, comment, a last comment without newline - also behind an error without parameters) plus random larger trees x random layouts (CRLF files, final comment without newline); non-trivial = tree with at least 3 type nodes. Spec decisions of the oracle (harness/idlgen.go docAbove): (1) a member's expected Doc is the block of whole-line comments directly above the line on which its keyword stands, also when the keyword is not the first token on that line (literal reading of the property; matches idl.go); (2) empty comment lines at the top of a block are dropped, because the newline separator is written only once something was collected (as idl.go does)",
        "trusted_base": IDL_TB + ["the generator's independent definition of a member's documentation (comment block above the keyword line) and of the layouts inside the grammar (harness/idlgen.go)"],
        "assumptions": [],
    },
    "C06": {
        "streams": _streams([("idlmut", 90000, 1400000), ("idltot", 12000, 200000), ("idlname", 2000, 50000)]),
        "rule": "every single-token deletion / insertion / substitution / transposition of every description in the bounded-exhaustive base set, all token sequences up to length 3 (quick) / 4 (thorough) behind a valid header, random multi-token mutants of larger trees, valid descriptions under random layouts, truncations, random bytes and token soup; non-trivial = a text that is a mutation of a valid description",
        "trusted_base": IDL_TB + ["the canonical printer and `strip` (lean/Varlink/Idl/Printer.lean) used by the oracle on the real parser's tree"],
        "assumptions": [],
    },
    "C09": {
        "streams": _streams([("idltot", 16000, 400000), ("idlmut", 90000, 1100000), ("idlname", 1000, 50000)]),
        "rule": "every truncation of every small valid description and of random larger ones, inputs ending in '#', '# x', NUL, non-UTF-8, unbalanced punctuation, nesting up to 64 KiB ('[]'x32K, '(a:'x16K, closed and unclosed), wide field lists, all short token sequences, random bytes, single-token mutants; every call under recover() with a 20 s watchdog; non-trivial = a text that is a mutation/truncation of a valid description",
        "trusted_base": IDL_TB + ["Go's stack growth is not modelled: recursion depth is bounded by the 64 KiB input bound of the property"],
        "assumptions": ["inputs up to 64 KiB"],
    },
}
