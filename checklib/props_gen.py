"""Interface generator properties C07, C08: harness streams per tier and evidence texts (see briefs/gen.md)."""

GEN_TB = [
    "hand-written Lean transliteration of cmd/varlink-go-interface-generator/main.go (lean/Varlink/Gen/Generator.lean: exact pre-gofmt text; lean/Varlink/Gen/View.lean: structured view), compared on every case of every run with the real generator binary built from /repo: text byte for byte after go/format, structured view against a go/parser summary of the real output",
    "go/format is not modelled: it is applied to the model's text by the harness",
    "Check.wellFormed is a model of the fragment of Go's type rules the generated file can violate; the Go compiler is the ground truth and is run on real output in every run, disagreements in either direction are reported",
    "the tree given to the model is the one the real idl.New returns (the parser model is property C05's business)",
]


def _gen_streams(quick_n, thorough_n):
    def f(tier):
        return [("gen", ["-n", str(quick_n if tier == "quick" else thorough_n), "-tier", tier])]
    return f


def _stub_streams(quick_n, thorough_n):
    def f(tier):
        return [("stub", ["-n", str(quick_n if tier == "quick" else thorough_n), "-tier", tier]),
                # flags pass through per call: a `more` call answered to its end, then a plain call on the same connection
                ("history", ["-n", "8" if tier == "quick" else "32"])]
    return f


STUB_TB = [
    "hand-written Lean model of what the generated code does at run time (lean/Varlink/Stub.lean: typed values, json.Marshal/Unmarshal of the generated tagged struct types, client stub, dispatcher, reply and error helpers, Dispatch_Error) on top of the service and client models of C01/C04/C11/C12; compared on every case with real generator output compiled and linked against /repo and run against a real varlink.Service over unix sockets through a recording proxy",
    "encoding/json is modelled at the level of JSON values (lean/Varlink/Json.lean parses the observed frames); floats are carried as their literal, Go's shortest-round-trip float formatting is not modelled; duplicate object keys in incoming parameters are not modelled",
    "the emitted driver programs (harness/stub.go: implementation of the generated interface that records its arguments with json.Marshal, typed Go literals for every value)",
]

PROPS = {
    "C08": {
        "level": "translation_validation",
        "streams": _stub_streams(400, 8000),
        "rule": "(history) short fixed histories whose state must not outlive an operation: a Send given up on an unbuffered pipe followed by calls (the peer sees only the later calls), a connection closed with received but unread replies followed by a new connection that calls and upgrades, an interface registered between two serving runs on one Service under the same context (a call answered InterfaceNotFound before reaches it afterwards), a plain call after a `more` call answered to its end (the handler sees the flags of the call it handles); descriptions: the C07 in-domain tables (9 base types x 12 wrappers x 6 positions, keyword field names, aliases incl. recursive ones through ?, [] and [string], alias of object) and random interfaces; per description 6 cases drawn from: reply (flags 0 / more with two replies and Continues / oneway / Upgrade stub), typed error reply, method not overridden, unknown method, undecodable parameters (absent, null, wrong JSON kind, int with fraction/exponent/out of int64 range, float out of range, string for bool ...), and a call as a non-Go peer would send it (other key order, other letter case, unknown members); values: int64 extremes, float extremes incl. max, smallest subnormal, -0, unicode / control / HTML characters in strings and map keys, nil and empty arrays and maps, absent and present optionals, nested structs, arbitrary JSON for object. Compared per case: the request frame, the arguments the implementation received (json.Marshal of the untagged Go values), the flags it saw, every reply frame, the values / typed error / standard error the client stub returned. non-trivial = a value of nesting depth at least 2",
        "trusted_base": STUB_TB,
        "assumptions": [
            "strings and map keys are valid UTF-8; a present optional whose content encodes as JSON null (nil array/map, object null) is indistinguishable from an absent one and is not generated",
            "descriptions are taken from the C07 domain and must compile (C07 decides that)",
        ],
    },
    "C07": {
        "level": "translation_validation",
        "streams": _gen_streams(1200, 12000),
        "rule": "bounded-exhaustive: 9 base types (bool int float string object alias enum struct empty-struct) x 12 wrapper prefixes up to depth 2 (?, [], [string] and their pairs) x 6 positions (method input, method output, error parameter, alias field, alias body, nested in struct/array/map); 65 Go keywords / predeclared / imported / generator-local identifiers as field names alone at every position and all together; typeless errors; dashes, upper case, xn-- in interface names; package names equal to imported packages and predeclared names; the former defect inputs as regression cases (package name a Go keyword or main: i.f, fu.nc, g.o, Ty.Pe, im.port, ma.in; @IMPORTS@, json.RawMessage, fmt.Sprintf, context.Context in interface and member documentation and in interface names, with and without the packages being used); doc comments with backticks, CR, CRLF, quotes, unicode; member names equal to identifiers of the generated file and of varlink.Call; deliberately out-of-domain descriptions (enum-typed errors and inputs = crash path, non-struct in/out/error types, duplicate fields, unresolved references, reserved member names, direct recursion, non-UTF-8); plus random interfaces (0-3 aliases with forward and backward references, 1-3 methods, 0-2 errors, types up to depth 3, random layout, CRLF files). Every case: real generator twice, model text after go/format byte-equal, view equal; the first ~960 cases (quick) / all cases (thorough) are compiled with go build against /repo and linked into a probe that prints VarlinkGetName/VarlinkGetDescription. non-trivial = a description using at least 2 distinct type constructors",
        "trusted_base": GEN_TB,
        "assumptions": [
            "description and documentation are valid UTF-8 without NUL and byte order mark (explicit Domain condition cleanText)",
            "direct recursion of a type through itself without ?, [] or [string] is outside the domain (uninhabited type; explicit Domain condition noDirectRecursion)",
        ],
    },
}
