"""C16 (data races) and C17 (cancellation): harness streams per tier, evidence texts."""


def _race_streams(tier):
    # 258 = 2 serving calls x (9 single operations + 36 pairs + 84 triples); every round uses fresh offsets
    n = 258 * (4 if tier == "quick" else 60)
    return [("race", ["-n", str(n)]), ("regguard", ["-n", str(300 if tier == "quick" else 6000)]),
            # connections that must not share anything: one closed twice, then three open at once; two big replies under way
            # at the same time (what a shared reader or buffer does there is visible without the detector)
            ("scale", ["-n", "2" if tier == "quick" else "4"])]


def _cancel_streams(tier):
    # the first 34 cases are the real transports, the rest generated traces over the tracing connection
    n = 34 + (500 if tier == "quick" else 12000)
    return [("cancel", ["-n", str(n)]), ("ctxsplit", ["-n", "40" if tier == "quick" else "600"]),
            # the context handed to a handler is its connection's: live while connected, cancelled once it has ended
            ("connctx", ["-n", "12" if tier == "quick" else "200"]),
            # Read and Write at the same time on an upgraded connection: each completes with its own result
            ("duplex", ["-n", "12" if tier == "quick" else "200"]),
            # state that outlives one operation (a given-up Send, unread replies at Close, flags of the previous call)
            ("history", ["-n", "8" if tier == "quick" else "32"])]


PROPS = {
    "C16": {
        "streams": _race_streams,
        "race_binary": True,
        "rule": "(race) every single operation, pair and triple of {Shutdown, GetListener, RegisterInterface attempts, client traffic on k connections, cancelling the service context under open connections, cancelled Read / ReadBytes / Write on a connection used by one goroutine, reuse after cancel} concurrently with one serving call (Listen or DoListen; unix-abstract or tcp; with or without accept timeout), randomised start offsets and repetition counts, each scenario in its own process under the Go race detector; non-trivial = at least two operations besides the serving call; (regguard) deterministic histories over {start, connect, disconnect, Shutdown, RegisterInterface attempt} with (running, conncounter) read at each attempt, compared with the guard of the counter system",
        "trusted_base": [
            "the go/ast extractor extract/access.go (lock state by a structured walk; aliasing of *Service and accesses through copied values are not tracked) - cross-checked by the race detector runs of every check",
            "the happens-before model of lean/Varlink/Race.lean (one mutex, spawn, join, channels) is a definition in Lean, not Go's implementation of its memory model",
            "the Go race detector (finds only races of the schedules that ran)",
        ],
        "assumptions": [
            "intended use as in the property: one serving call at a time (Bind, Listen | DoListen in one goroutine); a client connection is used by one goroutine at a time",
            "SetReadDeadline/SetWriteDeadline do not fail on an open connection (the early return in the cancel arm on such a failure is the one exit that does not join the helper)",
        ],
    },
    "C17": {
        "streams": _cancel_streams,
        "rule": "(history) short fixed histories whose state must not outlive an operation: a Send given up on an unbuffered pipe followed by calls (the peer sees only the later calls), a connection closed with received but unread replies followed by a new connection that calls and upgrades, an interface registered between two serving runs on one Service under the same context (a call answered InterfaceNotFound before reaches it afterwards), a plain call after a `more` call answered to its end (the handler sees the flags of the call it handles); (ctxsplit) client Send and the receive function it returns given DIFFERENT contexts against a scripted silent / late peer on unix and tcp: receive cancelled or timed out while blocked, Send's context cancelled after the write, reuse of the connection after a cancelled receive (both frames must arrive in order), Call with one context; (cancel) real transports (unix, tcp, net.Pipe, bridge subprocess, the service's per-connection read) x {ctxio ReadBytes / Read / Write, client Call / Send} x {cancel, deadline} with a silent peer and a 2 s one-sided margin, goroutine count and reuse of the connection under a context without a deadline; plus generated cases over a tracing net.Conn: {frame read, raw read, write} x {cancel, deadline} x instant {before the call, blocked with nothing in flight, frame partially received, after completion} x connection honours deadlines or not x bufio state left by a preceding operation x follow-up operations with a live context; non-trivial = the context ends while the operation is blocked",
        "trusted_base": [
            "bufio.Reader is modelled (lean/Varlink/Frame.lean), validated against the real package by every run",
            "the go/ast extractor extract/access.go (skeleton of Read / ReadBytes / Write: deadline calls, spawn, select arms)",
            "wall-clock margins (2 s) and runtime.NumGoroutine for the real-transport cases",
        ],
        "assumptions": [
            "the underlying net.Conn honours deadlines (unix, tcp, net.Pipe, the repaired bridge pipe); for a connection that does not, the model shows the operation blocked until the peer acts",
            "SetReadDeadline/SetWriteDeadline do not fail on an open connection",
            "'promptly' = at most 24 steps of the operation itself in the model, 2 s in the runs; the Go scheduler is not modelled",
        ],
    },
}
