CHECKS = {
    "C20": {
        "text": "Lean theorems characterise activationListener/setListener completely: select_spec (a descriptor is selected iff LISTEN_PID parses to this pid and LISTEN_FDS parses to n >= 1; descriptor 3 for n = 1, otherwise 3 + position of the first 'varlink' entry of LISTEN_FDNAMES, which must be set and have exactly n entries), activation_used_iff (activation is used iff the selected descriptor is a listening socket), and the fallback corollaries for every other environment. The model is tied to socketactivation.go by running the property's whole environment product in re-executed child processes that inherit real descriptors, every run.",
        "note": "Trusted: Lean kernel, harness (child process protocol), model of strconv.Atoi (validated differentially every run). Kernel fd semantics and net.FileListener are the model's `kind` parameter.",
        "technique": "Lean 4 theorems (decision logic iff) + exhaustive differential correspondence over the environment product",
    },
}
