CHECKS = {
    "C20": {
        "text": "Lean theorems characterise activationListener/setListener completely: select_spec (a descriptor is selected iff LISTEN_PID parses to this pid and LISTEN_FDS parses to n >= 1; descriptor 3 for n = 1, otherwise 3 + position of the first 'varlink' entry of LISTEN_FDNAMES, which must be set and have exactly n entries), activation_used_iff (activation is used iff the selected descriptor is a listening socket), and the fallback corollaries for every other environment. The model is tied to socketactivation.go by running the property's whole environment product in re-executed child processes that inherit real descriptors, every run.",
        "note": "Trusted: Lean kernel, harness (child process protocol), model of strconv.Atoi (validated differentially every run). Kernel fd semantics and net.FileListener are the model's `kind` parameter.",
        "technique": "Lean 4 theorems (decision logic iff) + exhaustive differential correspondence over the environment product",
    },
    "C19": {
        "text": "Lean theorems over the model of parseAddress/Bind/setListener and of NewConnection's parsing: bind_total (no panic for any string and state), the three refusal theorems (no '<protocol>:' prefix, protocol other than unix/tcp, empty unix path) and refused_while_running, accepts_iff (the OS is asked to listen iff the string is valid), bind_history_free and bind_again_after_any_bind (outcome depends on the string alone; any bind leaves the service able to bind again), tail_ignored_both_sides (service and client read the same endpoint: protocol and text up to the first ';'), abstract_iff_at and tcp_no_fs (stale-file removal and unlink-on-close exactly for filesystem unix sockets). Tied to service.go/connection.go by bind sequences, serve/connect/shutdown cycles and file-system observations on generated address strings.",
        "note": "Partial: net.Listen/net.Dial and the file system are the environment (modelled as parameters; their behaviour is observed, not proved). Trusted: Lean kernel, harness.",
        "technique": "Lean 4 theorems (totality, decision logic iff, history freedom) + differential correspondence on an address grammar",
    },
}
