CHECKS = {
    "C14": {
        "category": "proof",
        "text": "Lean theorems over a labelled transition system of service.go's synchronisation points (any number of Listen/DoListen/Bind "
                "calls, connections, handler threads; clients, faults, ctx cancellation, Shutdown as environment labels), by induction "
                "over reachability: every accepted connection is in conncounter and in its owner's wait group exactly from counted until "
                "done whichever way it ends (accounted_once); a returned serving call has no live handler (drains); a closed listener makes "
                "the serving call reach its wait within 7 of its own steps under any interleaving, nil if Shutdown found it in Accept "
                "(shutdown_returns); connections made after Shutdown are refused and never accepted (no_service_after_shutdown); after "
                "return the shared state is the initial one (reusable); Bind while running changes nothing but the caller's result "
                "(bind_refused_while_running, with the old behaviour's failing trace as a regression example). Tied to the code by a "
                "regenerated synchronisation skeleton of service.go (decide) and by replaying all bounded histories on the real Service "
                "through a controlled listener and on real sockets.",
        "note": "Partial: fairness and the behaviour of package net are assumptions; return time is checked with one-sided margins only; "
                "theorems about the return value / released endpoint assume no overlapping serving calls (the general model documents what "
                "overlap does). Trusted: Lean kernel, harness (controlled listener, quiescence test), driver replay, skeleton extractor.",
        "technique": "Lean 4 LTS + invariants by induction over reachability + regenerated skeleton (decide) + exhaustive bounded-history correspondence on the real code",
    },
    "C15": {
        "category": "proof",
        "text": "Same transition system with a timeout: the timeout error is returned only by the step that found conncounter = 0 right after "
                "an accept expiry (timeout_only_when_idle); with an open connection an expiry leads back to the loop "
                "(open_connection_blocks_timeout); with none it ends serving (next_expiry_after_last_close_fires); without a timeout no "
                "expiry is ever enabled and serving ends only by Shutdown or an accept error (no_timeout_never_stops); a timeout return has "
                "closed the listener, so later connects are refused and the address can be bound again (timeout_releases_endpoint). "
                "Tied by injected expiries on the controlled listener (all bounded histories) and real-clock runs on unix/abstract/tcp.",
        "note": "Partial: behaviour of net deadlines is an assumption validated only by the real-clock runs (one-sided margins); "
                "endpoint release is proved for non-overlapping serving calls. Trusted: as C14.",
        "technique": "Lean 4 LTS + invariants by induction + exhaustive bounded-history correspondence with injected expiries + real-clock socket runs",
    },
}
