CHECKS = {
    "C14": {
        "category": "proof",
        "text": "Lean theorems over a labelled transition system of service.go's synchronisation points (any number of Listen / DoListen / "
                "Bind calls, connections and handler threads; clients, faults, ctx cancellation, accept-deadline expiry and Shutdown as "
                "labels; every interleaving), by induction over reachability: conncounter and every call's wait group equal the number of "
                "connections between their increment and decrement, and no wg.Done hits an empty group (accounted_once); the four endings "
                "of a handler all take the one exit path that decrements each exactly once (four_endings_reach_closing, "
                "exit_path_decrements_once, handler_progress); a returned serving call has no unfinished connection (drains); Bind while "
                "running changes nothing but the caller's result (bind_refused_while_running, with the old behaviour's failing trace as a "
                "decide'd regression example); after Shutdown the stored listener is closed for ever and every later connection to it is "
                "refused and never accepted (no_service_after_shutdown); under the orderly discipline Shutdown closes the listener the "
                "call serves and, along any interleaving, the call's own step is never blocked and reaches its wait within 7 own steps "
                "(shutdown_returns), with nil if Shutdown found it in Accept (shutdown_in_accept_returns_nil); the wait ends exactly when "
                "its connections have ended (wait_returns_when_drained); the returning step leaves the shared state initial and nothing "
                "in flight (reusable). Tied to the code by the regenerated synchronisation skeleton of service.go (skeleton_matches, "
                "decide) and by replaying all bounded histories, with every placement of Shutdown at a listener interaction, on the real "
                "Service through a controlled listener and on real unix/abstract/tcp sockets, each followed by a full second "
                "bind-serve-call-shutdown cycle.",
        "note": "Partial: fairness and the behaviour of package net are assumptions (listed in lean/Varlink/Lifecycle.lean, re-validated on "
                "real sockets each run); return time is checked with one-sided margins (3 s watchdog); the model has the code\'s granularity (the start-up critical sections of Bind / Listen / DoListen are single steps since fix a1069ea); "
                "`shutdown_returns_any`, `serving_call_listener`, `bind_window_gone`, `second_bind_refused_any`, `drains`, `accounted_once`, `no_service_after_shutdown` hold for EVERY reachable state with no discipline on API use; "
                "only the nil return value after a Shutdown (`Serial`: no second serving call started before the first has returned) and `reusable` (`Orderly`: additionally no stand-alone Bind between a serving call\'s teardown and its return) "
                "carry a discipline hypothesis, each shown necessary by a decide\'d model trace; `vh lifeprobe` (real scheduler, every run) checks that a Bind racing with the start of serving is refused or comes first. Trusted: Lean kernel, harness (controlled listener, quiescence test), "
                "driver replay of harness events, skeleton extractor.",
        "technique": "Lean 4 LTS + invariants by induction over reachability + bounded-progress measure + regenerated skeleton (decide) + exhaustive bounded-history correspondence on the real code",
    },
    "C15": {
        "category": "proof",
        "text": "Same transition system with a timeout: the step that sets the timeout return value is the call's own check at "
                "pc errTimeout, reached only by an accept expiry, and it found conncounter = 0, i.e. no accepted connection open "
                "(timeout_only_when_idle); with an open connection expiry + check lead back to the loop check with the return value "
                "unset (open_connection_blocks_timeout); with conncounter = 0 they end serving with the timeout error "
                "(next_expiry_after_last_close_fires); with no timeout configured and no Shutdown no expiry label is ever enabled, a call "
                "in its loop stays there with the service running and the listener open, and nothing returns but start-up errors "
                "(no_timeout_never_stops); a call that returned the timeout error has closed the listener it served in its teardown: the "
                "address is free at once (the guard of the listen step), the listener stays closed and every later client is refused "
                "(timeout_releases_endpoint, with the old teardown's failing trace as a decide'd regression example). Tied by the same "
                "regenerated skeleton, by all bounded histories with expiries (and Shutdown placed before / after them) injected through "
                "the controlled listener (DoListen), by all bounded histories with Listen on real unix-path / abstract / tcp sockets where the "
                "expiry is injected on the real listener (SetDeadline in the past), and by real-clock histories incl. immediate re-listen.",
        "note": "Partial: net deadline behaviour is an assumption validated only by the real-clock runs (timeout 400 ms, one-sided margins); "
                "Listen cannot take an injected listener (it binds itself), so Shutdown placed inside a listener call is exercised on DoListen "
                "only; Listen's loop is the same code by skeleton (listen_and_dolisten_share_the_loop) and runs on real sockets with injected expiries; "
                "endpoint release and never-stops are proved under the orderly discipline (see C14). Trusted: as C14.",
        "technique": "Lean 4 LTS + invariants by induction + exhaustive bounded-history correspondence with injected expiries + real-clock socket runs",
    },
}
