#!/bin/bash
# sweep.sh <tier> <seed…> — unchanged-tree sweep for false alarms: runs every property's check for each seed
# and prints one line per run. Meant for `vp run --with-repo -- checklib/sweep.sh quick 2 3 4 5`: works in a
# snapshot of /verif (builds everything first) and, when $VP_RUN_REPO is set, against that snapshot of /repo
# (VERIF_REPO_DIR), so seeded changes being tried in /repo do not disturb it. SWEEP_PROPS="C04 C17" restricts the properties.
TIER=${1:-quick}; shift
SEEDS="${*:-1}"
cd "$(dirname "$0")/.."
if [ -n "${VP_RUN_REPO:-}" ]; then export VERIF_REPO_DIR=$VP_RUN_REPO; fi
./check --setup > sweep_setup.log 2>&1 || { echo "SETUP FAILED"; tail -20 sweep_setup.log; exit 1; }
for S in $SEEDS; do
  for P in ${SWEEP_PROPS:-C01 C02 C03 C04 C05 C06 C07 C08 C09 C10 C11 C12 C13 C14 C15 C16 C17 C18 C19 C20}; do
    T0=$(date +%s)
    VERIF_SEED=$S timeout 14400 ./check $P --tier $TIER > sweep_${P}_${TIER}_$S.log 2>&1; E=$?
    echo "seed=$S $P tier=$TIER exit=$E $(( $(date +%s) - T0 ))s $(grep -E "^\[$P\] $TIER" sweep_${P}_${TIER}_$S.log | cut -c1-120) $(grep -c VIOLATION sweep_${P}_${TIER}_$S.log) violation-lines"
    if [ $E -ne 0 ]; then grep -E "VIOLATION|BROKEN" sweep_${P}_${TIER}_$S.log | head -3; R=$(grep -o "replay=[^ ]*" sweep_${P}_${TIER}_$S.log | head -1 | cut -d= -f2); [ -n "$R" ] && head -8 "$R" | cut -c1-300; fi
  done
done
