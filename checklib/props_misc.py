"""Per-property configuration of ./check for C20, C19, C13, C11, C02, C03, C10 (see checklib/props.py for the format)."""

JSON_TB = "encoding/json is modelled (lean/Varlink/Json.lean), validated against the real package by every correspondence run"


def streams(*specs):
    def f(tier):
        out = []
        for sp in specs:
            sub, q, t = sp[0], sp[1], sp[2]
            out.append((sub, ["-n", str(q if tier == "quick" else t)] + [tier if a == "TIER" else a for a in sp[3:]]))
        return out
    return f


PROPS = {
    "C20": {
        "streams": streams(("act", 150, 6000), ("atoi", 2000, 200000)),
        "rule": "exhaustive product {LISTEN_PID: self, other process, unset, garbage, signed/padded forms} x LISTEN_FDS {unset,'',foo,-1,0,1,2,3,+2,03} x LISTEN_FDNAMES variants (unset, empty, wrong arity, varlink first/middle/last/twice/absent) x kinds of descriptors 3..5 (listening socket, regular file, pipe), each run in a re-executed child process that inherits the descriptors, plus random environments and random strings for strconv.Atoi; non-trivial = LISTEN_FDS >= 2 (act) or a string of length >= 2 (atoi)",
        "trusted_base": ["strconv.Atoi is modelled (Varlink.atoi), compared with the real function on every run",
                         "net.FileListener / the kernel decide whether a descriptor is a listening socket (parameter `kind` of the model)"],
        "assumptions": ["the harness child process observes the listener chosen by Bind through GetListener().Addr() and a GetInfo round trip"],
    },
    "C19": {
        "streams": streams(("addr", 1500, 40000)),
        "rule": "address grammar: protocol in {unix, tcp, unixpacket, tcp4, udp, UNIX, 'unix ', '', missing} x path/host forms (empty, '@name', '@', absolute in a scratch dir, relative, missing directory, over-long, path containing ':', tcp host:port good and bad) with and without ';tail' (tails containing ':' and ';'), plus random strings; pre-existing stale socket / regular file at the path; 1-3 binds on one service object (after a refused one, in half of the cases, a DoListen all the same) followed by a known-good bind; per successful bind a DoListen + NewConnection(same string) + GetInfo + Shutdown cycle; non-trivial = a string with at least 2 separators",
        "trusted_base": ["net.Listen / net.Dial / the file system are the environment of the model (a valid address may still fail to bind; generated endpoints known to be listenable must bind)"],
        "assumptions": ["error classes are recognised by the three fixed error texts of Bind/parseAddress"],
    },
    "C13": {
        "streams": streams(("reg", 2500, 40000)),
        "rule": "random identity strings and description texts (valid UTF-8, any Unicode) x histories of 1-10 operations over {register (pool of names incl. duplicates, org.varlink.service, the empty name, unicode), listen, connection opens, connection closes, shutdown} followed by settling and a final registration; per history the refusal class of every registration, Connection.GetInfo, Connection.GetInterfaceDescription for every pool/tried/unknown name, and Resolver.GetInfo/Resolve against a resolver interface answering with varying key capitalisation; non-trivial = a history with a refused registration",
        "trusted_base": [JSON_TB, "unix abstract sockets as transport of the queries"],
        "assumptions": ["interface names asked for are arbitrary; the registered-description theorem carries the guard name != \"\" (an interface registered under the empty name is listed but can never be described)"],
    },
    "C11": {
        "streams": streams(("client", 4000, 120000, "-tier", "TIER"), ("scale", 2, 4), ("history", 8, 32)),
        "rule": "(history) short fixed histories whose state must not outlive an operation: a Send given up on an unbuffered pipe followed by calls (the peer sees only the later calls), a connection closed with received but unread replies followed by a new connection that calls and upgrades, an interface registered between two serving runs on one Service under the same context (a call answered InterfaceNotFound before reaches it afterwards), a plain call after a `more` call answered to its end (the handler sees the flags of the call it handles); all 16 flag sets x method strings x parameters (absent, JSON values, unencodable) for Send against a recording peer; reply streams of 0-4 frames (valid replies, error frames incl. the four org.varlink.service errors with right/wrong/ill-typed payload, wrong-shape JSON, byte mutations, random bytes, frames > 4 KiB) x segmentations x server death at a random byte offset, receive called frames+2 times; non-trivial = a stream that ends inside a frame",
        "trusted_base": [JSON_TB, "bufio.Reader modelled (lean/Varlink/Frame.lean)", "white-box constructor VerifNewConnection (overlay) wraps a scripted net.Conn exactly as NewConnection wraps a dialled one"],
        "assumptions": [],
    },
    "C02": {
        "streams": streams(("e2e", 600, 12000), ("ctxio", 2000, 60000), ("conn", 1500, 40000), ("client", 1500, 40000), ("jsonself", 2500, 200000), ("jsonstruct", 4000, 300000), ("bigframes", 24, 400), ("scale", 2, 4)),
        "rule": "(scale) a connection closed twice followed by 3 connections open at once, each recovering only its own replies; two 1 MiB replies on two connections under way at the same time; (e2e) raw bytes of both directions captured by a recording proxy between a real Connection and a real Service (unix, abstract unix, tcp): every captured message must be one JSON object + one NUL and equal the model's rendering; parameters are generated JSON objects with adversarial strings (NUL, quotes, controls, non-BMP, U+2028, invalid UTF-8), long digit strings, nesting, sizes up to 200 KiB; (ctxio) real ctxio.Conn over scripted segmentations (byte-wise, at NULs, random, frames > 4096 bytes, many frames per segment) against readAll/runOps; (conn)/(client) every message written by sendMessage / Send; non-trivial = a value with nesting >= 2 (e2e) or a frame spanning a segment boundary / >= 2 frames per segment (ctxio)",
        "trusted_base": [JSON_TB, "bufio.Reader is modelled (lean/Varlink/Frame.lean), validated against the real package by the ctxio stream of every run"],
        "assumptions": ["number literals inside parameters are JSON numbers (json.Marshal guarantees it); nesting below encoding/json's limit of 10000"],
    },
    "C03": {
        "streams": streams(("e2e", 1200, 30000), ("jsonself", 2500, 200000), ("jsonstruct", 4000, 300000), ("scale", 14, 56), ("history", 8, 32), ("client", 1500, 40000, "-tier", "TIER")),
        "rule": "(history) short fixed histories whose state must not outlive an operation: a Send given up on an unbuffered pipe followed by calls (the peer sees only the later calls), a connection closed with received but unread replies followed by a new connection that calls and upgrades, an interface registered between two serving runs on one Service under the same context (a call answered InterfaceNotFound before reaches it afterwards), a plain call after a `more` call answered to its end (the handler sees the flags of the call it handles); (scale) one dimension far beyond the replayed cases between real client and real service: frames of 1 MiB .. 16 MiB + 1 in both directions, 70 / 300 connections open at once, 5000 / 20000 calls on one connection, a more call with 20000 / 70000 replies, a connection closed twice followed by 3 connections open at once (each gets only its own replies), two 1 MiB replies on two connections under way at the same time; real Connection <-> real Service over filesystem unix socket, abstract unix socket, TCP loopback and a bridge subprocess (cycled); 1-3 calls per connection with generated JSON objects as parameters (integers beyond 2^53, exponents, -0, empty objects, null members, unicode, up to 200 KiB), more-sequences of 0-50 replies, error replies, oneway calls; compared: what the handler reads via GetParameters, every value / continues bit / error the client's receive returns; non-trivial = parameters with nesting >= 2",
        "trusted_base": [JSON_TB, "the four transports are assumed to be reliable ordered byte pipes (sampled, not proved)"],
        "assumptions": ["values are valid UTF-8 for the exact-equality theorems; invalid UTF-8 is replaced by U+FFFD exactly as encoding/json does (theorem parseDoc_render_sanitize, and compared on the wire)"],
    },
    "C10": {
        "streams": streams(("abort", 1500, 12000, "-tier", "TIER"), ("conn", 1500, 40000), ("gone", 12, 120), ("stall", 3, 20)),
        "rule": "(gone) a handler streaming replies to a more call whose client reads 0 / 1 / 3 / 40 replies and then disappears (close, tcp reset): the reply must fail, the handler end, the connection be released, Shutdown end serving; (abort) generated request streams (valid call sequences with scripted handlers, built-in calls, mutated frames, wrong-shape JSON, random bytes, incomplete tails, frames > 4 KiB) sent over a real unix or tcp socket served by DoListen; the client stops at sampled byte offsets (quick: 0, end, after/before NULs, random; thorough: every offset of short streams) by orderly half-close (replies and dispatch log must equal the model's for the prefix), hard close or TCP reset without reading (dispatch log must be a prefix of the model's), while a probe connection calls GetInfo after every run; after each run the active count must drop back, at the end Shutdown must end DoListen with nil and count 0; (conn) whole streams through the per-connection loop over a scripted connection; non-trivial = at least one stop inside a frame",
        "trusted_base": [JSON_TB, "bufio.Reader modelled (lean/Varlink/Frame.lean)", "white-box accessors VerifConnCounter / VerifState (overlay)"],
        "assumptions": ["liveness needs: the handler's own code returns; reads and writes on a dead peer return an error (kernel); goroutine scheduling is fair"],
    },
}
