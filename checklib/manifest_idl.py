CHECKS = {
    "C09": {
        "text": "Lean model of idl.go (a line-by-line transliteration in which every slice expression is guarded as the Go runtime guards it and every loop/recursion runs on fuel linear in the input length) with the theorem that New returns a tree or an error for every byte string - never the explicit panic or out-of-fuel outcome; tied to the code by running the real idl.New (recover + watchdog) and the compiled model on truncations, pathological endings, 64 KiB nesting, token sequences and random bytes and comparing outcome, error site and tree.",
        "note": "Trusted: Lean kernel, harness, the hand-written model (validated differentially on every run). Go stack growth is not modelled.",
        "technique": "Lean 4 theorem (invariant + measure) over a hand-written model + differential correspondence",
    },
    "C06": {
        "text": "Lean theorems over the model of idl.go: an accepted text is strip-equal (whitespace and comments removed) to the canonical printing of the returned tree, member names are unique, a method exists, no optional directly wraps an optional, every field list is homogeneous; hence every text not strip-equal to a printing of a well-formed tree is rejected. Tied to the code by a mutation stream (all single-token mutants of a bounded-exhaustive base set, all short token sequences, random bytes) on which the real parser's result is compared with the model and checked by the same oracle.",
        "note": "Trusted: Lean kernel, harness, the hand-written model (validated differentially), printer/strip definitions.",
        "technique": "Lean 4 theorems (window lemmas per reader) + differential correspondence",
    },
    "C05": {
        "text": "Lean theorem parse_render_partial over the model of idl.go: every description rendered from a layouted syntax tree (any type nesting, any member sequence, layout atoms space/tab/CR/LF/comment in every gap the grammar has, CRLF, last comment without newline) inside the grammar and inside two decidable layout guards is accepted with exactly the tree it denotes - name, members in source order, field names and type constructors as written, Doc = the comment block above each member, description verbatim; corollaries layout_independent, docs_from_block, members_in_source_order; the unguarded statement is refuted in Lean by witnesses (the known finding). The string literals of idl.go (regexps, keywords, messages) are regenerated from the source and pinned by theorem source_literals. Tied to the code by generated trees (all types up to 3 nodes in every member position x the whole layout pool in the thorough tier, random large trees x random layouts) whose real parse is compared field by field with the generated tree and with the model's.",
        "note": "Partial: the two guards (member starts on a new line; an error's type on the line of its name) exclude layouts on which idl.go deviates - listed as findings with witnesses in lean/VarlinkProofs/Props/C05.lean. Trusted: Lean kernel, harness and generator (incl. its definition of the comment block above a member), hand-written model (validated differentially).",
        "technique": "Lean 4 theorems (forward lemmas per reader, induction on layouted trees) + regenerated source literals + generated differential correspondence",
    },
}
