CHECKS = {
    "C09": {
        "text": "Lean model of idl.go (a line-by-line transliteration in which every slice expression is guarded as the Go runtime guards it and every loop/recursion runs on fuel linear in the input length) with the theorem that New returns a tree or an error for every byte string - never the explicit panic or out-of-fuel outcome; tied to the code by running the real idl.New (recover + watchdog) and the compiled model on truncations, pathological endings, 64 KiB nesting, token sequences and random bytes and comparing outcome, error site and tree.",
        "note": "Trusted: Lean kernel, harness, the hand-written model (validated differentially on every run). Go stack growth is not modelled.",
        "technique": "Lean 4 theorem (invariant + measure) over a hand-written model + differential correspondence",
    },
    "C06": {
        "text": "Lean theorems over the model of idl.go: an accepted text is strip-equal (whitespace and comments removed) to the canonical printing of the returned tree, member names are unique, a method exists, no optional directly wraps an optional, every field list is homogeneous; hence every text not strip-equal to a printing of a well-formed tree is rejected. Tied to the code by a mutation stream (all single-token mutants of a bounded-exhaustive base set, all short token sequences, random bytes) on which the real parser's result is compared with the model and checked by the same oracle.",
        "note": "Trusted: Lean kernel, harness, the hand-written model (validated differentially), printer/strip definitions.",
        "technique": "Lean 4 theorems (window lemmas per reader) + differential correspondence",
    },
    "C05": {
        "text": "Lean theorems over the model of idl.go: descriptions rendered from a syntax tree under any layout inside the grammar are accepted with exactly that tree, description verbatim and documentation = the comment block above each member; tied to the code by generated trees (bounded-exhaustive small trees x layout pool, random large trees x random layouts) on which the real parser's tree is compared field by field with the generated tree and with the model's.",
        "note": "Partial: see lean/VarlinkProofs/Props/C05.lean for the part of the statement that is proved; the rest is covered by the differential run. Known finding: layout classes around an error's optional type. Trusted: Lean kernel, harness and generator, hand-written model (validated differentially).",
        "technique": "Lean 4 theorems + generated differential correspondence",
    },
}
