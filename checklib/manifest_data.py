NOTES = "See DESIGN.md. Every check rebuilds the harness from /repo's working tree, rebuilds the Lean theorems, audits axioms, then runs the model-vs-implementation correspondence."

CHECKS = {
    "C04": {
        "text": "Lean theorems characterise the routing function completely (user dispatch iff, InterfaceNotFound iff, InvalidParameter(method) iff, built-in iff, one reply and connection kept, dispatched exactly once, undecodable frames never dispatched) for all method strings and registries; the model is tied to service.go by a differential run of the real per-connection loop against the compiled model on generated registries x method strings x frames.",
        "note": "Trusted: Lean kernel, the Go harness and generators, the hand-written model of HandleMessage/handleConnection (validated by the differential run), the model of encoding/json.",
        "technique": "Lean 4 theorems over a hand-written model + differential correspondence with the real code",
    },
}

CHECKS.update({
    "C01": {
        "text": "Lean theorems over the model of Call.Reply/ReplyError/sendMessage and of the handleConnection loop: oneway calls never write; continues only on more-calls, otherwise refused, reported and silent; frames written = API calls that reported success, in order; connection answers in arrival order, stops at the first handler error or undecodable frame; under any schedule of any number of connections each connection's trace equals its trace alone. Tied to the code by running the real per-connection loop on scripted handlers.",
        "note": "Partial: goroutine scheduling inside one handler and real socket timing are not modelled (sampled by the N-connection socket runs). Trusted: Lean kernel, harness, hand-written model validated differentially, model of encoding/json.",
        "technique": "Lean 4 theorems (induction over scripts, frames and schedules) + differential correspondence",
    },
    "C12": {
        "text": "Lean theorems: ReplyError accepts exactly names <interface>.<Name> outside org.varlink.service, refusals write nothing; accepted error frames carry exactly name and parameters; the client maps the four reserved names to their typed errors with the payload the service put in and every other name to the generic error with name and parameters unchanged. Tied by scripted handlers sending generated error names/parameters through the real service loop.",
        "note": "Trusted: Lean kernel, harness, model of encoding/json. The wire leg (render/parse) is the C03 round-trip.",
        "technique": "Lean 4 theorems (decision logic iff) + differential correspondence",
    },
    "C18": {
        "text": "Lean theorem stream_exactly_once: for every interleaving of frame reads and raw reads, every stream and segmentation, the concatenation of what the operations return plus what is still pending is the original stream (proved from a general lemma about the bufio model, any capacity). The model's read path is regenerated from ctxio/conn.go by the extractor (theorem raw_read_uses_the_buffered_reader fails to build if Read bypasses the bufio.Reader again); the model is compared with the real ctxio.Conn over scripted segmentations on every run.",
        "note": "Trusted: Lean kernel, extractor, harness, bufio model (validated differentially every run).",
        "technique": "Lean 4 theorem over a bufio model + regenerated source fact + differential correspondence",
    },
})

# further checks live in checklib/manifest_*.py (each defines CHECKS = {...} and optionally NOT_APPLICABLE_REASONS)
import glob as _glob, importlib.util as _ilu, os as _os
NA_REASONS = {}
for _f in sorted(_glob.glob(_os.path.join(_os.path.dirname(_os.path.abspath(__file__)), "manifest_*.py"))):
    if _os.path.basename(_f) == "manifest_data.py":
        continue
    _spec = _ilu.spec_from_file_location(_os.path.basename(_f)[:-3], _f)
    _m = _ilu.module_from_spec(_spec)
    _spec.loader.exec_module(_m)
    CHECKS.update(getattr(_m, "CHECKS", {}))
    NA_REASONS.update(getattr(_m, "NOT_APPLICABLE_REASONS", {}))

_WIP = "machinery for this property is not built yet in this snapshot (work in progress; see DESIGN.md build order)"
NOT_APPLICABLE = {p: NA_REASONS.get(p, _WIP) for p in ["C%02d" % i for i in range(1, 21)] if p not in CHECKS}
