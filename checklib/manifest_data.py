NOTES = "See DESIGN.md. Every check rebuilds the harness from /repo's working tree, rebuilds the Lean theorems, audits axioms, then runs the model-vs-implementation correspondence."

CHECKS = {
    "C04": {
        "text": "Lean theorems characterise the routing function completely (user dispatch iff, InterfaceNotFound iff, InvalidParameter(method) iff, built-in iff, one reply and connection kept, dispatched exactly once, undecodable frames never dispatched) for all method strings and registries; the model is tied to service.go by a differential run of the real per-connection loop against the compiled model on generated registries x method strings x frames.",
        "note": "Trusted: Lean kernel, the Go harness and generators, the hand-written model of HandleMessage/handleConnection (validated by the differential run), the model of encoding/json.",
        "technique": "Lean 4 theorems over a hand-written model + differential correspondence with the real code",
    },
}

_WIP = "machinery for this property is not built yet in this snapshot (work in progress; see DESIGN.md build order)"
NOT_APPLICABLE = {p: _WIP for p in ["C%02d" % i for i in range(1, 21)] if p not in CHECKS}
