#!/usr/bin/env python3
"""Regenerates MANIFEST.json from checklib/manifest_data.py (kept as code so that it stays valid)."""
import json, os, sys
sys.path.insert(0, os.path.dirname(os.path.abspath(__file__)))
from manifest_data import CHECKS, NOT_APPLICABLE, NOTES

ROOT = os.path.dirname(os.path.dirname(os.path.abspath(__file__)))
checks = []
for pid, c in sorted(CHECKS.items()):
    checks.append({
        "property_id": pid,
        "quick_cmd": "./check %s --tier quick" % pid,
        "thorough_cmd": "./check %s --tier thorough" % pid,
        "evidence_file": "/verif/evidence/%s.json" % pid,
        "replay_cmd_template": "./check %s --replay {path}" % pid,
        "engine": "lean4-model+go-correspondence",
        "level_claimed": {"category": c.get("category", "proof"), "text": c["text"], "design_ref": c.get("design_ref", "DESIGN.md §7 " + pid)},
        "level_note": c["note"],
        "technique": c["technique"],
    })
m = {
    "version": 1,
    "setup_cmd": "./check --setup",
    "hooks": {
        "guard": "verif",
        "enable": "go build -tags verif -overlay /verif/.work/overlay.json (white-box accessor harness/overlay/*.go and the harness package are mapped into /repo's module at build time; nothing is written to /repo)",
        "baseline_off_cmd": "cd /repo && GOFLAGS=-mod=mod GOPROXY=off go test -vet=off -count=1 ./varlink/... ./cmd/varlink-go-interface-generator/",
        "source_commits": [],
        "add_only": True,
    },
    "engines": [
        {"name": "lean4-model+go-correspondence", "path": "/verif/lean, /verif/harness, /verif/check",
         "serves_properties": sorted(CHECKS.keys()),
         "kind_free_text": "Lean 4 models + theorems (lake build, #print axioms audit), tied to /repo by a Go differential harness driving the real code and the compiled Lean driver on the same cases, plus a go/ast fact extractor regenerating Lean constants"},
    ],
    "checks": checks,
    "notes": NOTES,
    "not_applicable": [{"property_id": p, "reason": r} for p, r in sorted(NOT_APPLICABLE.items())],
}
json.dump(m, open(os.path.join(ROOT, "MANIFEST.json"), "w"), indent=1)
print("wrote MANIFEST.json with", len(checks), "checks,", len(m["not_applicable"]), "not applicable")
